// gomut lists mutation sites inside named functions of one Go file (development aid for measuring how tightly the
// contracts pin the code down). Output: JSON lines {file, func, start, end, repl, desc, line}.
package main

import (
	"encoding/json"
	"fmt"
	"go/ast"
	"go/parser"
	"go/token"
	"os"
	"strings"
)

type site struct {
	File  string `json:"file"`
	Func  string `json:"func"`
	Start int    `json:"start"`
	End   int    `json:"end"`
	Repl  string `json:"repl"`
	Desc  string `json:"desc"`
	Line  int    `json:"line"`
}

func recvName(fd *ast.FuncDecl) string {
	if fd.Recv == nil || len(fd.Recv.List) == 0 {
		return fd.Name.Name
	}
	t := fd.Recv.List[0].Type
	star := ""
	if s, ok := t.(*ast.StarExpr); ok {
		star = "*"
		t = s.X
	}
	if ix, ok := t.(*ast.IndexExpr); ok {
		t = ix.X
	}
	if id, ok := t.(*ast.Ident); ok {
		return "(" + star + id.Name + ")." + fd.Name.Name
	}
	return fd.Name.Name
}

func main() {
	if len(os.Args) < 3 {
		fmt.Fprintln(os.Stderr, "usage: gomut FILE FUNC...")
		os.Exit(2)
	}
	file := os.Args[1]
	want := map[string]bool{}
	for _, f := range os.Args[2:] {
		// closures f$1 are mutated as part of f
		if i := strings.Index(f, "$"); i >= 0 {
			f = f[:i]
		}
		want[f] = true
	}
	src, err := os.ReadFile(file)
	if err != nil {
		panic(err)
	}
	fset := token.NewFileSet()
	af, err := parser.ParseFile(fset, file, src, 0)
	if err != nil {
		panic(err)
	}
	enc := json.NewEncoder(os.Stdout)
	emit := func(fn string, s, e token.Pos, repl, desc string) {
		enc.Encode(site{file, fn, fset.Position(s).Offset, fset.Position(e).Offset, repl, desc, fset.Position(s).Line})
	}
	text := func(n ast.Node) string { return string(src[fset.Position(n.Pos()).Offset:fset.Position(n.End()).Offset]) }
	flip := map[token.Token]string{token.EQL: "!=", token.NEQ: "==", token.LSS: "<=", token.LEQ: "<", token.GTR: ">=", token.GEQ: ">",
		token.LAND: "||", token.LOR: "&&", token.ADD: "-", token.SUB: "+"}
	for _, d := range af.Decls {
		fd, ok := d.(*ast.FuncDecl)
		if !ok || fd.Body == nil {
			continue
		}
		name := recvName(fd)
		if !want[name] {
			continue
		}
		ast.Inspect(fd.Body, func(n ast.Node) bool {
			switch x := n.(type) {
			case *ast.BinaryExpr:
				if r, ok := flip[x.Op]; ok {
					if x.Op == token.ADD {
						// string concatenation: skip
						if bl, ok := x.X.(*ast.BasicLit); ok && bl.Kind == token.STRING {
							return true
						}
						if bl, ok := x.Y.(*ast.BasicLit); ok && bl.Kind == token.STRING {
							return true
						}
					}
					emit(name, x.OpPos, x.OpPos+token.Pos(len(x.Op.String())), r, "operator "+x.Op.String()+" -> "+r)
				}
			case *ast.UnaryExpr:
				if x.Op == token.NOT {
					emit(name, x.Pos(), x.End(), "("+text(x.X)+")", "drop negation")
				}
			case *ast.IfStmt:
				if x.Init == nil {
					emit(name, x.Cond.Pos(), x.Cond.End(), "!("+text(x.Cond)+")", "negate if condition")
				}
			case *ast.BasicLit:
				if x.Kind == token.INT && len(x.Value) < 6 {
					emit(name, x.Pos(), x.End(), x.Value+"+1", "integer literal + 1")
				}
			case *ast.ExprStmt:
				if _, ok := x.X.(*ast.CallExpr); ok {
					emit(name, x.Pos(), x.End(), "", "delete call statement")
				}
			case *ast.AssignStmt:
				if x.Tok == token.ASSIGN && len(x.Lhs) == 1 {
					if _, isSel := x.Lhs[0].(*ast.SelectorExpr); isSel {
						emit(name, x.Pos(), x.End(), "", "delete field assignment")
					}
				}
			case *ast.ReturnStmt:
				// return true/false flipped
				for _, r := range x.Results {
					if id, ok := r.(*ast.Ident); ok && (id.Name == "true" || id.Name == "false") {
						nv := "true"
						if id.Name == "true" {
							nv = "false"
						}
						emit(name, id.Pos(), id.End(), nv, "return "+id.Name+" -> "+nv)
					}
				}
			case *ast.BranchStmt:
				if x.Tok == token.CONTINUE && x.Label == nil {
					emit(name, x.Pos(), x.End(), "break", "continue -> break")
				}
			}
			return true
		})
	}
}
