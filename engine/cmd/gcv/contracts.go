package main

// Contract files: parsing of //@ lines into clauses.

import (
	"fmt"
	"go/types"
	"os"
	"path/filepath"
	"regexp"
	"strconv"
	"strings"
)

type Clause struct {
	Kind  string // requires, ensures, sink, inv, axiom, assume
	Label string
	Props []string
	Expr  *SExpr
	Src   string
	Call  string // sink: call target
	File  string
	Line  int
}

type FuncContract struct {
	Pkg         string // package path the contract file belongs to ("" for stdlib.spec)
	Name        string // relative name (or full name for stdlib)
	IsIface     bool
	Props       []string
	Requires    []*Clause
	Ensures     []*Clause
	Sinks       []*Clause
	LoopInv     map[int][]*Clause
	LoopGhost   map[int][]*GhostVar
	Modifies    []string // nil = unspecified (havoc all)
	NoMod       bool
	Pure        bool
	Fresh       bool // result is a freshly allocated object
	Trusted     bool // contract assumed, body not verified
	Safety      bool // generate safety obligations for this function
	NoInline    bool
	Nilable     map[string]bool
	ParamNames  []string // for stdlib specs: names given to parameters
	Assumed     bool     // from stdlib.spec
	MayPanic    bool
	Lemma       bool
	ReplayHints map[string]string // parameter name (or "recv") -> Go expression used by replay instead of a model value
	Shallow     bool              // do not inline callees when verifying this function (large functions)
	Uses        []string          // quantified axioms this function's proof may use
	SpecNames   []string          // spec-level aliases for the results of a pure function (one per result)
	File        string
	Line        int
}

// GhostVar: a ghost loop accumulator: "loop K ghost NAME SORT init E step E" (step is evaluated on every back edge,
// with the loop variables at their values at the loop head and the heap as it is at the back edge).
type GhostVar struct {
	Name string
	Sort string
	Init *SExpr
	Step *SExpr
	Src  string
}

type SpecFunc struct {
	Name   string
	Params []Binder
	Result string
	Body   *SExpr // nil for abstract
	Src    string
}

type SpecDB struct {
	funcs       map[string]*FuncContract // key: pkgpath + "::" + relname ; stdlib: full name
	ifaces      map[string]*FuncContract // key: pkgpath.Iface.Method
	specFns     map[string]*SpecFunc
	axioms      []*Clause
	lemmas      []*Clause
	stable      map[string]bool // "pkgpath.Type.field" or "pkgpath.Type.*"
	nonnil      map[string]bool
	ghosts      map[string]Sort
	ghostZero   map[string][]string // type name -> ghost fields that are zero on a zero-valued object
	files       []string
	mirrorUsed  []string
	guarded     map[string]string // "pkgpath.Type.field" -> mutex field (C20)
	atomicOnly  map[string]bool
	scans       []*ScanSpec
	specAliases map[string]specAlias
	pkgDefault  map[string]*FuncContract
}

type specAlias struct {
	fc  *FuncContract
	idx int
}

type ScanSpec struct {
	Kind  string
	Props []string
	Label string
	Args  []string
	File  string
	Line  int
	Pkg   string
}

func newSpecDB() *SpecDB {
	return &SpecDB{funcs: map[string]*FuncContract{}, ifaces: map[string]*FuncContract{}, specFns: map[string]*SpecFunc{},
		stable: map[string]bool{}, nonnil: map[string]bool{}, ghosts: map[string]Sort{}, ghostZero: map[string][]string{}, guarded: map[string]string{}, atomicOnly: map[string]bool{}, specAliases: map[string]specAlias{}, pkgDefault: map[string]*FuncContract{}}
}

func typeOwner(t types.Type) (pkg, name string) {
	if p, ok := t.(*types.Pointer); ok {
		t = p.Elem()
	}
	if n, ok := t.(*types.Named); ok {
		if n.Obj().Pkg() != nil {
			return n.Obj().Pkg().Path(), n.Obj().Name()
		}
		return "", n.Obj().Name()
	}
	return "", ""
}

func (db *SpecDB) isStable(st types.Type, field string) bool {
	p, n := typeOwner(st)
	if n == "" {
		return false
	}
	return db.stable[p+"."+n+"."+field] || db.stable[p+"."+n+".*"]
}

func (db *SpecDB) isNonNil(st types.Type, field string) bool {
	p, n := typeOwner(st)
	if n == "" {
		return false
	}
	return db.nonnil[p+"."+n+"."+field]
}

var clauseHead = regexp.MustCompile(`^(requires|ensures|assert|invariant|axiom|assume|lemma)(\[([^\]]*)\])?\s+(.*)$`)

// loadContractFile parses one contract file. pkgPath is "" for stdlib.spec style files (full names).
func (db *SpecDB) loadContractFile(path, pkgPath string) error {
	data, err := os.ReadFile(path)
	if err != nil {
		return err
	}
	db.files = append(db.files, path)
	var cur *FuncContract
	var curProps []string
	var lastClause *Clause
	var pendingSrc *string
	finishClause := func() error {
		if lastClause != nil && pendingSrc != nil {
			e, err := parseSpec(*pendingSrc)
			if err != nil {
				return fmt.Errorf("%s:%d: %v", path, lastClause.Line, err)
			}
			lastClause.Expr = e
			lastClause.Src = strings.Join(strings.Fields(*pendingSrc), " ")
		}
		lastClause, pendingSrc = nil, nil
		return nil
	}
	var pendingDefine *SpecFunc
	var pendingDefineSrc *string
	finishDefine := func() error {
		if pendingDefine != nil {
			e, err := parseSpec(*pendingDefineSrc)
			if err != nil {
				return fmt.Errorf("%s: define %s: %v", path, pendingDefine.Name, err)
			}
			pendingDefine.Body = e
			pendingDefine.Src = *pendingDefineSrc
		}
		pendingDefine, pendingDefineSrc = nil, nil
		return nil
	}
	lines := strings.Split(string(data), "\n")
	for ln, raw := range lines {
		line := strings.TrimSpace(raw)
		if !strings.HasPrefix(line, "//@") {
			continue
		}
		body := strings.TrimPrefix(line, "//@")
		if i := strings.Index(body, " -- "); i >= 0 {
			body = body[:i]
		}
		trim := strings.TrimSpace(body)
		if trim == "" {
			continue
		}
		word := trim
		if i := strings.IndexAny(trim, " \t["); i >= 0 {
			word = trim[:i]
		}
		isKeyword := map[string]bool{"func": true, "iface": true, "prop": true, "requires": true, "ensures": true, "at": true, "loop": true,
			"modifies": true, "nomod": true, "pure": true, "fresh": true, "trusted": true, "safety": true, "noinline": true, "nilable": true,
			"abstract": true, "define": true, "axiom": true, "stable": true, "nonnil": true, "ghost": true, "params": true, "maypanic": true,
			"guarded": true, "atomic-only": true, "scan": true, "lemma": true, "end": true, "specname": true, "uses": true, "package-default": true, "shallow": true, "replay": true}[word]
		if !isKeyword {
			// continuation of the previous clause / define
			if pendingSrc != nil {
				*pendingSrc += " " + trim
				continue
			}
			if pendingDefineSrc != nil {
				*pendingDefineSrc += " " + trim
				continue
			}
			return fmt.Errorf("%s:%d: unexpected line %q", path, ln+1, trim)
		}
		if err := finishClause(); err != nil {
			return err
		}
		if err := finishDefine(); err != nil {
			return err
		}
		rest := strings.TrimSpace(strings.TrimPrefix(trim, word))
		newClause := func(kind, label, src string) *Clause {
			c := &Clause{Kind: kind, Label: label, Props: append([]string{}, curProps...), File: path, Line: ln + 1}
			s := src
			pendingSrc = &s
			lastClause = c
			return c
		}
		switch word {
		case "end":
			cur = nil
		case "func", "iface":
			cur = &FuncContract{Pkg: pkgPath, Name: rest, IsIface: word == "iface", LoopInv: map[int][]*Clause{}, Nilable: map[string]bool{}, File: path, Line: ln + 1, Assumed: pkgPath == ""}
			curProps = nil
			if word == "iface" {
				key := rest
				if pkgPath != "" && !strings.Contains(strings.SplitN(rest, ".", 2)[0], "/") && strings.Count(rest, ".") == 1 {
					key = pkgPath + "." + rest
				}
				cur.Name = key
				db.ifaces[key] = cur
			} else {
				key := rest
				if pkgPath != "" {
					key = pkgPath + "::" + rest
				}
				if _, dup := db.funcs[key]; dup {
					return fmt.Errorf("%s:%d: duplicate contract for %s", path, ln+1, rest)
				}
				db.funcs[key] = cur
			}
		case "prop":
			curProps = strings.Fields(rest)
			if cur != nil && len(cur.Props) == 0 {
				cur.Props = curProps
			} else if cur != nil {
				for _, p := range curProps {
					if !contains(cur.Props, p) {
						cur.Props = append(cur.Props, p)
					}
				}
			}
		case "requires", "ensures":
			if cur == nil {
				return fmt.Errorf("%s:%d: clause outside func", path, ln+1)
			}
			m := clauseHead.FindStringSubmatch(trim)
			if m == nil {
				return fmt.Errorf("%s:%d: malformed clause", path, ln+1)
			}
			c := newClause(word, m[3], m[4])
			if c.Label == "" {
				c.Label = fmt.Sprintf("%s%d", word[:3], len(cur.Requires)+len(cur.Ensures))
			}
			if word == "requires" {
				cur.Requires = append(cur.Requires, c)
			} else {
				cur.Ensures = append(cur.Ensures, c)
			}
		case "at":
			// at call NAME assert[label] e
			if cur == nil {
				return fmt.Errorf("%s:%d: clause outside func", path, ln+1)
			}
			r := strings.TrimSpace(strings.TrimPrefix(rest, "call"))
			i := strings.Index(r, " assert")
			if i < 0 {
				return fmt.Errorf("%s:%d: expected 'at call NAME assert e'", path, ln+1)
			}
			target := strings.TrimSpace(r[:i])
			m := clauseHead.FindStringSubmatch(strings.TrimSpace(r[i:]))
			if m == nil {
				return fmt.Errorf("%s:%d: malformed sink", path, ln+1)
			}
			c := newClause("sink", m[3], m[4])
			c.Call = target
			if c.Label == "" {
				c.Label = fmt.Sprintf("sink%d", len(cur.Sinks))
			}
			cur.Sinks = append(cur.Sinks, c)
		case "loop":
			if cur == nil {
				return fmt.Errorf("%s:%d: clause outside func", path, ln+1)
			}
			f := strings.Fields(rest)
			if len(f) < 3 {
				return fmt.Errorf("%s:%d: malformed loop clause", path, ln+1)
			}
			k, err := strconv.Atoi(f[0])
			if err != nil {
				return fmt.Errorf("%s:%d: loop ordinal: %v", path, ln+1, err)
			}
			r := strings.TrimSpace(strings.TrimPrefix(rest, f[0]))
			if f[1] == "ghost" {
				// loop K ghost NAME SORT init E step E
				gm := regexp.MustCompile(`^ghost\s+(\w+)\s+(\w+)\s+init\s+(.*?)\s+step\s+(.*)$`).FindStringSubmatch(r)
				if gm == nil {
					return fmt.Errorf("%s:%d: expected 'loop K ghost NAME SORT init E step E'", path, ln+1)
				}
				ie, err1 := parseSpec(gm[3])
				se, err2 := parseSpec(gm[4])
				if err1 != nil || err2 != nil {
					return fmt.Errorf("%s:%d: ghost: %v %v", path, ln+1, err1, err2)
				}
				if cur.LoopGhost == nil {
					cur.LoopGhost = map[int][]*GhostVar{}
				}
				cur.LoopGhost[k] = append(cur.LoopGhost[k], &GhostVar{Name: gm[1], Sort: gm[2], Init: ie, Step: se, Src: r})
				continue
			}
			m := clauseHead.FindStringSubmatch(r)
			if m == nil || m[1] != "invariant" {
				return fmt.Errorf("%s:%d: expected 'loop K invariant e'", path, ln+1)
			}
			c := newClause("inv", m[3], m[4])
			if c.Label == "" {
				c.Label = fmt.Sprintf("inv%d", len(cur.LoopInv[k]))
			}
			cur.LoopInv[k] = append(cur.LoopInv[k], c)
		case "modifies":
			if cur != nil {
				if cur.Modifies == nil {
					cur.Modifies = []string{}
				}
				cur.Modifies = append(cur.Modifies, strings.Fields(strings.ReplaceAll(rest, ",", " "))...)
			}
		case "nomod":
			if cur != nil {
				cur.NoMod = true
			}
		case "pure":
			if cur != nil {
				cur.Pure = true
				cur.NoMod = true
			}
		case "fresh":
			if cur != nil {
				cur.Fresh = true
			}
		case "trusted":
			if cur != nil {
				cur.Trusted = true
			}
		case "lemma":
			// lemma[label] closed formula (global), or flag on a harness function
			if m := clauseHead.FindStringSubmatch(trim); m != nil && m[4] != "" {
				c := newClause("lemma", m[3], m[4])
				c.Call = pkgPath
				db.lemmas = append(db.lemmas, c)
				if m2 := regexp.MustCompile(`\buses\(([^)]*)\)`).FindStringSubmatch(m[3]); m2 != nil {
					_ = m2
				}
			} else if cur != nil {
				cur.Lemma = true
			}
		case "safety":
			if cur != nil {
				cur.Safety = true
			}
		case "maypanic":
			if cur != nil {
				cur.MayPanic = true
			}
		case "replay":
			// replay NAME GO-EXPRESSION
			if cur != nil {
				f := strings.SplitN(rest, " ", 2)
				if len(f) == 2 {
					if cur.ReplayHints == nil {
						cur.ReplayHints = map[string]string{}
					}
					cur.ReplayHints[f[0]] = strings.TrimSpace(f[1])
				}
			}
		case "shallow":
			if cur != nil {
				cur.Shallow = true
			}
		case "noinline":
			if cur != nil {
				cur.NoInline = true
			}
		case "nilable":
			if cur != nil {
				for _, n := range strings.Fields(rest) {
					cur.Nilable[n] = true
				}
			}
		case "params":
			if cur != nil {
				cur.ParamNames = strings.Fields(rest)
			}
		case "package-default":
			d := &FuncContract{Pkg: pkgPath, Name: "*", LoopInv: map[int][]*Clause{}, Nilable: map[string]bool{}, File: path, Line: ln + 1}
			for _, w := range strings.Fields(rest) {
				switch w {
				case "trusted":
					d.Trusted = true
				case "nomod":
					d.NoMod = true
				}
			}
			db.pkgDefault[pkgPath] = d
		case "uses":
			if cur != nil {
				cur.Uses = append(cur.Uses, strings.Fields(rest)...)
			}
		case "specname":
			if cur != nil {
				cur.SpecNames = strings.Fields(rest)
				for i, n := range cur.SpecNames {
					db.specAliases[n] = specAlias{cur, i}
				}
			}
		case "abstract", "define":
			// abstract name(T, U) R      define name(x T, y U) R = e
			i := strings.Index(rest, "(")
			j := matchParen(rest, i)
			if i < 0 || j < 0 {
				return fmt.Errorf("%s:%d: malformed %s", path, ln+1, word)
			}
			sf := &SpecFunc{Name: strings.TrimSpace(rest[:i])}
			ps := strings.TrimSpace(rest[i+1 : j])
			if ps != "" {
				for k, p := range strings.Split(ps, ",") {
					f := strings.Fields(p)
					switch len(f) {
					case 1:
						sf.Params = append(sf.Params, Binder{Name: fmt.Sprintf("a%d", k), Type: f[0]})
					case 2:
						sf.Params = append(sf.Params, Binder{Name: f[0], Type: f[1]})
					default:
						return fmt.Errorf("%s:%d: malformed parameter %q", path, ln+1, p)
					}
				}
			}
			after := strings.TrimSpace(rest[j+1:])
			if word == "abstract" {
				sf.Result = after
			} else {
				k := strings.Index(after, "=")
				if k < 0 {
					return fmt.Errorf("%s:%d: define needs '= e'", path, ln+1)
				}
				sf.Result = strings.TrimSpace(after[:k])
				src := strings.TrimSpace(after[k+1:])
				pendingDefine = sf
				pendingDefineSrc = &src
			}
			if _, dup := db.specFns[sf.Name]; dup {
				return fmt.Errorf("%s:%d: duplicate spec function %s", path, ln+1, sf.Name)
			}
			db.specFns[sf.Name] = sf
		case "axiom":
			m := clauseHead.FindStringSubmatch(trim)
			if m == nil {
				return fmt.Errorf("%s:%d: malformed axiom", path, ln+1)
			}
			c := newClause("axiom", m[3], m[4])
			db.axioms = append(db.axioms, c)
		case "stable", "nonnil":
			for _, n := range strings.Fields(rest) {
				key := n
				if pkgPath != "" && strings.Count(n, ".") == 1 {
					key = pkgPath + "." + n
				}
				if word == "stable" {
					db.stable[key] = true
				} else {
					db.nonnil[key] = true
				}
			}
		case "ghost":
			// ghost name sort
			f := strings.Fields(rest)
			if len(f) < 2 {
				return fmt.Errorf("%s:%d: ghost NAME SORT", path, ln+1)
			}
			// optional: "zero T1 T2 ...": a zero-valued (just allocated) object of these types has the field at its zero
			for i, w := range f {
				if w == "zero" {
					for _, tn := range f[i+1:] {
						db.ghostZero[tn] = append(db.ghostZero[tn], f[0])
					}
					f = f[:i]
					break
				}
			}
			db.ghosts[f[0]] = specSort(strings.Join(f[1:], " "))
		case "guarded":
			// guarded Type.field by mutexField
			f := strings.Fields(rest)
			if len(f) != 3 || f[1] != "by" {
				return fmt.Errorf("%s:%d: guarded T.f by m", path, ln+1)
			}
			db.guarded[pkgPath+"."+f[0]] = f[2]
		case "atomic-only":
			for _, n := range strings.Fields(rest) {
				db.atomicOnly[pkgPath+"."+n] = true
			}
		case "scan":
			// scan[label] kind args...
			m := regexp.MustCompile(`^scan(\[([^\]]*)\])?\s+(\S+)\s*(.*)$`).FindStringSubmatch(trim)
			if m == nil {
				return fmt.Errorf("%s:%d: malformed scan", path, ln+1)
			}
			db.scans = append(db.scans, &ScanSpec{Kind: m[3], Label: m[2], Args: strings.Fields(m[4]), Props: append([]string{}, curProps...), File: path, Line: ln + 1, Pkg: pkgPath})
		}
	}
	if err := finishClause(); err != nil {
		return err
	}
	return finishDefine()
}

func matchParen(s string, i int) int {
	if i < 0 {
		return -1
	}
	d := 0
	for j := i; j < len(s); j++ {
		switch s[j] {
		case '(':
			d++
		case ')':
			d--
			if d == 0 {
				return j
			}
		}
	}
	return -1
}

func contains(xs []string, x string) bool {
	for _, y := range xs {
		if x == y {
			return true
		}
	}
	return false
}

func specSort(t string) Sort {
	switch t {
	case "int", "ref", "time", "duration":
		return SInt
	case "string", "bytes", "[]byte":
		return SString
	case "bool":
		return SBool
	case "slice":
		return SSlice
	}
	if strings.HasPrefix(t, "(") {
		return Sort(t) // raw SMT sort, e.g. (Array String String)
	}
	return SInt
}

// findContractFiles: zz_contracts_verif.go files in /repo, falling back to the mirror in /verif/contracts.
func (db *SpecDB) loadAll(repo, verif string, pkgDirs map[string]string) error {
	// stdlib and shared specs
	shared, _ := filepath.Glob(filepath.Join(verif, "contracts", "*.spec"))
	for _, f := range shared {
		if err := db.loadContractFile(f, ""); err != nil {
			return err
		}
	}
	for pkgPath, dir := range pkgDirs {
		f := filepath.Join(dir, "zz_contracts_verif.go")
		if _, err := os.Stat(f); err != nil || os.Getenv("GCV_PREFER_MIRROR") != "" {
			rel := strings.TrimPrefix(dir, repo)
			m := filepath.Join(verif, "contracts", "repo", rel, "zz_contracts_verif.go")
			if _, err2 := os.Stat(m); err2 != nil {
				continue
			}
			db.mirrorUsed = append(db.mirrorUsed, m)
			f = m
		}
		if err := db.loadContractFile(f, pkgPath); err != nil {
			return err
		}
	}
	return nil
}
