package main

// SSA -> SMT encoder: core structures, state, heap model.

import (
	"fmt"
	"go/constant"
	"go/token"
	"go/types"
	"regexp"
	"sort"
	"strings"

	"golang.org/x/tools/go/ssa"
)

const zeroTime = "(- 62135596800000000000)" // time.Time{} in Unix nanoseconds

// Oblig is one proof obligation: under Ctx (the prelude), Reach && !Formula must be unsat.
type Oblig struct {
	ID      string
	Kind    string // post, sink, callpre, inv-init, inv-keep, safety, frame, lemma, scan
	Props   []string
	Fn      string
	Label   string
	Reach   string
	Formula string
	Src     string // source text of the clause / operation
	Pos     token.Position
	Err     string // generation error (clause could not be resolved) -> counts as failed
	// filled by solver
	Result    string
	Solver    string
	Time      float64
	Model     string
	prel      *Prelude
	nline     int  // number of body lines of the prelude that are in scope
	relaxed   bool // query without quantified modelling facts
	candidate bool // Model is a candidate from the relaxed query
	retried   bool // second pass with a larger budget was made
	noRetry   bool // expected to stay undecided (sweep obligations that were undecided on the pinned tree): no second pass
	// for replay
	fn         *ssa.Function
	clause     *SExpr
	heapNames  map[string]Sort // heap universe of the encoding (initial versions are <name>_v0)
	paramTerms []Term
	sorts      *Sorts
}

// Prelude accumulates the SMT context of one function encoding.
type Prelude struct {
	declSet map[string]bool
	decls   []string
	body    []string
}

func (p *Prelude) decl(line string) {
	if !p.declSet[line] {
		p.declSet[line] = true
		p.decls = append(p.decls, line)
	}
}

// State is the symbolic state at a program point.
type State struct {
	heap  map[string]string // heap name -> current SMT term
	alive string
	locks map[string]string // ghost lock state per mutex term (C20)
}

func (s *State) clone() *State {
	n := &State{heap: make(map[string]string, len(s.heap)), alive: s.alive}
	for k, v := range s.heap {
		n.heap[k] = v
	}
	return n
}

// FuncEnc encodes one top-level function (with inlined callees).
type FuncEnc struct {
	eng            *Engine
	fn             *ssa.Function
	fc             *FuncContract
	pre            *Prelude
	sorts          *Sorts
	ctr            int
	obls           []*Oblig
	heapSorts      map[string]Sort // universe of heaps (name -> sort)
	heapStable     map[string]bool
	notes          []string              // unsupported constructs encountered
	allocs         []string              // fresh refs allocated so far (for distinctness)
	allocSeq       int                   // birth stamps handed out so far
	protected      map[string]types.Type // alloc refs that never escape: ref -> pointee type
	nowLast        string
	top            *Frame
	calls          []*CallSite // call sites of the top frame in instruction order
	opCount        map[string]int
	depth          int
	assumedCallees map[string]bool
	inlinedCallees map[string]bool
	usedContracts  map[string]bool
	seenRefs       []string               // reference-valued terms computed so far (see noteRef)
	specDepth      int                    // >0 while a clause is being evaluated
	defMode        int                    // >0 while a definitional fact is being stated
	curGuard       string                 // path condition of the instruction being encoded (guards the facts stated for it)
	loopWritten    map[string]bool        // refs of non-escaping locals stored to inside the loop being cut (not restored by its havoc)
	usedFns        map[*ssa.Function]bool // callees whose contract was applied at a call site
	usedIfaces     map[string]bool        // interface-method contracts applied at invoke sites
	pass           int
	seqLen         map[string]string // spec-level sequences: element-array term -> length term
	sentinelVals   []string
	linked         map[string]bool
	curState       *State
	cvSeen         map[string]bool
	storeReach     map[string][]string // "Type.field" -> reach conditions of direct stores (all frames)
}

type CallSite struct {
	instr   ssa.CallInstruction
	names   []string // names this call site answers to
	reach   string   // alive condition right before the call
	args    []Term
	recv    *Term
	rets    []Term
	pre     *State // state before call
	nline   int    // number of body lines written before the call (what an assertion at the call may use)
	block   *ssa.BasicBlock
	encoded bool
	depth   int // 0 = the function under verification; >0 = inside an inlined callee
}

// Frame is one function activation (top-level or inlined).
type Frame struct {
	fe          *FuncEnc
	fn          *ssa.Function
	prefix      string
	vals        map[ssa.Value]Term
	tuples      map[ssa.Value][]Term
	params      []Term
	free        []Term
	edges       map[edgeKey]*edgeInfo
	closures    map[ssa.Value]*ssa.MakeClosure
	depth       int
	entry       *State
	init        *State // state at function entry (for old())
	defers      []*ssa.Defer
	deferReach  map[*ssa.Defer]string
	loopCtx     map[*ssa.BasicBlock]*loopInfo
	pendingBack []*ssa.BasicBlock // blocks with outgoing edges whose back edges are checked after the body is encoded
	blockIn     map[*ssa.BasicBlock]*State
	retNames    []string
}

type edgeKey struct {
	from *ssa.BasicBlock
	idx  int // successor index in from.Succs
}

type edgeInfo struct {
	cond  string
	st    *State
	nline int // body lines written when the edge was taken
}

type loopInfo struct {
	header *ssa.BasicBlock
	body   map[*ssa.BasicBlock]bool
	phis   []*ssa.Phi
	ghosts map[string]Term // ghost accumulators: value at the loop head
}

// sentinelSeen registers the value constant of an immutable sentinel error global and asserts it differs
// from every other sentinel seen in this encoding (each is a distinct errors.New allocation).
func (fe *FuncEnc) sentinelSeen(n string, g *ssa.Global) {
	if !fe.eng.sentinels[g] || fe.eng.mutGlobals[g] {
		return
	}
	for _, o := range fe.sentinelVals {
		if o == n {
			return
		}
	}
	for _, o := range fe.sentinelVals {
		fe.pre.decl(fmt.Sprintf("(assert (not (= %s %s)))", n, o))
	}
	fe.sentinelVals = append(fe.sentinelVals, n)
}

func (fe *FuncEnc) fresh(base string) string {
	fe.ctr++
	return fmt.Sprintf("%s_%d", base, fe.ctr)
}

func (fe *FuncEnc) emit(line string) {
	// Lines written while a clause is being evaluated (spec) or as definitions that hold everywhere (def) are part of
	// every query; any other assertion is visible only to obligations whose program point comes after it (see query()).
	if strings.HasPrefix(line, "(assert") {
		if fe.defMode > 0 {
			line += " ; def"
		} else if fe.specDepth > 0 {
			line += " ; spec"
		}
	}
	fe.pre.body = append(fe.pre.body, line)
}

func (fe *FuncEnc) declConst(name string, k Sort) {
	fe.pre.decl(fmt.Sprintf("(declare-const %s %s)", name, k))
}

func (fe *FuncEnc) define(name string, k Sort, expr string) string {
	fe.emit(fmt.Sprintf("(define-fun %s () %s %s)", name, k, expr))
	return name
}

func (fe *FuncEnc) assume(expr string) {
	if expr == "" || expr == "true" {
		return
	}
	if strings.HasPrefix(expr, "(forall ") {
		// quantified modelling facts (append, frames): excluded from the vacuity canary, which needs a sat answer
		fe.emit("(assert " + expr + ") ; axiom")
		return
	}
	// A fact stated while an instruction is being encoded holds where that instruction executes, not everywhere:
	// stated unconditionally, "the new byte array has length n-16" makes every path with n < 16 infeasible and whatever
	// is checked there vacuous (measured: cfbCipher.Decrypt's error path).
	if g := fe.curGuard; g != "" && g != "true" && !strings.HasPrefix(expr, "(=> "+g+" ") {
		expr = "(=> " + g + " " + expr + ")"
	}
	fe.emit("(assert " + expr + ")")
}

// assumeGlobal states a fact that does not depend on where the current instruction executes (definitional equations).
func (fe *FuncEnc) assumeGlobal(expr string) {
	g := fe.curGuard
	fe.curGuard = ""
	fe.defMode++
	fe.assume(expr)
	fe.defMode--
	fe.curGuard = g
}

func (fe *FuncEnc) note(f string, a ...interface{}) {
	s := fmt.Sprintf(f, a...)
	for _, n := range fe.notes {
		if n == s {
			return
		}
	}
	fe.notes = append(fe.notes, s)
}

// havocVal declares a fresh constant of the given Go type and assumes its range.
func (fe *FuncEnc) havocVal(base string, t types.Type) Term {
	k := fe.sorts.SortOf(t)
	n := fe.fresh(base)
	fe.declConst(n, k)
	fe.assumeTypeInv(n, t)
	return Term{n, k, t}
}

func (fe *FuncEnc) assumeTypeInv(n string, t types.Type) {
	if r := intRange(t, n); r != "" {
		fe.assume(r)
	}
	if t == nil {
		return
	}
	switch u := t.Underlying().(type) {
	case *types.Array:
		if isByteArray(t) {
			fe.assume(fmt.Sprintf("(= (str.len %s) %d)", n, u.Len()))
		}
	case *types.Slice:
		if isByteSlice(t) && fe.curState != nil {
			if _, ok := fe.heapSorts["HB"]; ok {
				// the backing byte array is at least as long as the slice's window
				fe.assume(fmt.Sprintf("(=> (not (= (s_base %s) 0)) (>= (str.len (select %s (s_base %s))) (+ (s_off %s) (s_cap %s))))", n, fe.hget(fe.curState, "HB"), n, n, n))
			}
		}
		fe.assume(fmt.Sprintf("(and (<= 0 (s_off %s)) (<= 0 (s_len %s)) (<= (s_len %s) (s_cap %s)) (=> (= (s_base %s) 0) (= (s_cap %s) 0)))", n, n, n, n, n, n))
	}
}

// ---- heaps ----

func (fe *FuncEnc) heapDecl(name string, k Sort) {
	if _, ok := fe.heapSorts[name]; !ok {
		fe.heapSorts[name] = k
	}
}

func (fe *FuncEnc) fieldHeap(st types.Type, idx int) (string, Sort) {
	// st: the struct type (named or not)
	s := st.Underlying().(*types.Struct)
	f := s.Field(idx)
	name := "H_" + mangle(typeKey(st))
	if len(name) > 70 {
		name = name[:70]
	}
	name += "_" + mangle(f.Name())
	k := Sort("(Array Int " + string(fe.sorts.SortOf(f.Type())) + ")")
	fe.heapDecl(name, k)
	if fe.eng.specs.isStable(st, f.Name()) {
		fe.heapStable[name] = true
	}
	return name, k
}

func (fe *FuncEnc) ptrHeap(t types.Type) (string, Sort) {
	es := fe.sorts.SortOf(t)
	name := "HP_" + mangle(string(es))
	k := Sort("(Array Int " + string(es) + ")")
	fe.heapDecl(name, k)
	return name, k
}

func (fe *FuncEnc) sliceHeap(elem types.Type) (string, Sort, bool) {
	if b, ok := elem.Underlying().(*types.Basic); ok && b.Kind() == types.Uint8 {
		fe.heapDecl("HB", "(Array Int String)")
		return "HB", "(Array Int String)", true
	}
	es := fe.sorts.SortOf(elem)
	name := "HS_" + mangle(string(es))
	k := Sort("(Array Int (Array Int " + string(es) + "))")
	fe.heapDecl(name, k)
	return name, k, false
}

func (fe *FuncEnc) mapHeaps(m *types.Map) (dom, val string) {
	ks := fe.sorts.SortOf(m.Key())
	vs := fe.sorts.SortOf(m.Elem())
	dom = "HMd_" + mangle(string(ks))
	val = "HMv_" + mangle(string(ks)) + "_" + mangle(string(vs))
	fe.heapDecl(dom, Sort("(Array Int (Array "+string(ks)+" Bool))"))
	fe.heapDecl(val, Sort("(Array Int (Array "+string(ks)+" "+string(vs)+"))"))
	fe.heapDecl("HMlen", "(Array Int Int)")
	return
}

func (fe *FuncEnc) ghostHeap(name string) (string, Sort, bool) {
	g, ok := fe.eng.specs.ghosts[name]
	if !ok {
		return "", "", false
	}
	h := "HG_" + name
	k := Sort("(Array Int " + string(g) + ")")
	fe.heapDecl(h, k)
	return h, k, true
}

// hget returns the current version of a heap in state st.
func (fe *FuncEnc) hget(st *State, name string) string {
	if v, ok := st.heap[name]; ok {
		return v
	}
	k, ok := fe.heapSorts[name]
	if !ok {
		panic("unknown heap " + name)
	}
	// first use: initial version (pass 1 only discovers names; pass 2 has them all pre-populated)
	v := name + "_v0"
	fe.declConst(v, k)
	st.heap[name] = v
	return v
}

// hinit: allocation by assumption. ref is a fresh object, so the current heap version can simply be assumed to
// hold the initial content there (no new heap version: facts about other objects stay syntactically unchanged).
func (fe *FuncEnc) hinit(st *State, name string, ref string, content string) {
	fe.assume(fmt.Sprintf("(= (select %s %s) %s)", fe.hget(st, name), ref, content))
}

// initRef: zero/initial content of a freshly allocated object of type T.
func (fe *FuncEnc) initRef(st *State, r string, T types.Type, v string) {
	if !isTimeTime(T) {
		switch u := T.Underlying().(type) {
		case *types.Struct:
			ss := fe.sorts.structInfo(fe.sorts.SortOf(T))
			if u.NumFields() > 0 {
				vn := fe.define(fe.fresh("sv"), Sort(ss.name), v)
				for i := 0; i < u.NumFields(); i++ {
					h, _ := fe.fieldHeap(T, i)
					fe.hinit(st, h, r, fmt.Sprintf("(%s %s)", ss.fnames[i], vn))
				}
			}
			return
		case *types.Array:
			h, _, _ := fe.sliceHeap(u.Elem())
			fe.hinit(st, h, r, v)
			return
		}
	}
	h, _ := fe.ptrHeap(T)
	fe.hinit(st, h, r, v)
}

func (fe *FuncEnc) hset(st *State, name string, expr string) {
	k := fe.heapSorts[name]
	n := fe.fresh(name + "_v")
	// a declared constant with a defining equation (not a macro): heap versions occur in quantifier patterns
	fe.declConst(n, k)
	fe.emit(fmt.Sprintf("(assert (= %s %s))", n, expr))
	st.heap[name] = n
}

// havocHeaps replaces every non-stable heap by a fresh one, keeping protected (non-escaped) objects.
func (fe *FuncEnc) havocHeaps(st *State, why string, only func(name string) bool) {
	for _, name := range sortedKeys(fe.heapSorts) {
		if fe.heapStable[name] {
			continue
		}
		if only != nil && !only(name) {
			continue
		}
		old := fe.hget(st, name)
		n := fe.fresh(name + "_h")
		fe.declConst(n, fe.heapSorts[name])
		st.heap[name] = n
		if name == "HB" {
			// backing arrays have a fixed size
			fe.assume(fmt.Sprintf("(forall ((qb Int)) (! (= (str.len (select %s qb)) (str.len (select %s qb))) :pattern ((select %s qb))))", n, old, n))
		}
		for _, r := range sortedKeys(fe.protected) {
			if fe.loopWritten[r] {
				continue // a local written in the loop being cut: its value at the loop head is not its value before the loop
			}
			fe.assume(fmt.Sprintf("(= (select %s %s) (select %s %s))", n, r, old, r))
		}
	}
}

// ---- values ----

func (fr *Frame) name(v ssa.Value) string {
	return fr.prefix + mangle(v.Name())
}

func (fe *FuncEnc) constTerm(c *ssa.Const) Term {
	t := c.Type()
	k := fe.sorts.SortOf(t)
	if c.Value == nil {
		if isTimeTime(t) {
			return Term{zeroTime, SInt, t}
		}
		return Term{fe.zeroOf(t), k, t}
	}
	switch k {
	case SBool:
		if constant.BoolVal(c.Value) {
			return Term{"true", k, t}
		}
		return Term{"false", k, t}
	case SInt:
		v := constant.ToInt(c.Value)
		s := v.ExactString()
		if strings.HasPrefix(s, "-") {
			s = "(- " + s[1:] + ")"
		}
		return Term{s, k, t}
	case SString:
		return Term{smtStr(constant.StringVal(c.Value)), k, t}
	case SReal:
		f, _ := constant.Float64Val(c.Value)
		s := fmt.Sprintf("%f", f)
		if f < 0 {
			s = fmt.Sprintf("(- %f)", -f)
		}
		return Term{s, k, t}
	}
	return Term{fe.zeroOf(t), k, t}
}

// zeroOf is the zero value for a Go type (time.Time aware for struct fields).
func (fe *FuncEnc) zeroOf(t types.Type) string {
	if isTimeTime(t) {
		return zeroTime
	}
	k := fe.sorts.SortOf(t)
	if s := fe.sorts.structInfo(k); s != nil {
		if len(s.fields) == 0 {
			return "mk_" + s.name
		}
		var parts []string
		for i := 0; i < s.st.NumFields(); i++ {
			parts = append(parts, fe.zeroOf(s.st.Field(i).Type()))
		}
		return "(mk_" + s.name + " " + strings.Join(parts, " ") + ")"
	}
	if isByteArray(t) {
		// N zero bytes: abstract string of length N
		n := fe.fresh("zarr")
		fe.declConst(n, SString)
		fe.assume(fmt.Sprintf("(= (str.len %s) %d)", n, t.Underlying().(*types.Array).Len()))
		return n
	}
	return fe.sorts.Zero(k)
}

func (fr *Frame) val(v ssa.Value) Term {
	fe := fr.fe
	if t, ok := fr.vals[v]; ok {
		return t
	}
	switch x := v.(type) {
	case *ssa.Const:
		return fe.constTerm(x)
	case *ssa.Global:
		n := "g_" + mangle(shortPkg(x.Pkg.Pkg.Path())+"."+x.Name())
		fe.declConst(n, SInt)
		fe.pre.decl(fmt.Sprintf("(assert (> %s 0))", n))
		fe.eng.globalsSeen[n] = true
		return Term{n, SInt, x.Type()}
	case *ssa.Function:
		n := "fn_" + mangle(shortFn(x))
		if len(n) > 90 {
			n = n[:90]
		}
		fe.declConst(n, SInt)
		fe.pre.decl(fmt.Sprintf("(assert (> %s 0))", n))
		return Term{n, SInt, x.Type()}
	case *ssa.Builtin:
		return Term{"0", SInt, x.Type()}
	}
	// value not yet defined (e.g. defined in an unreachable or later block): havoc
	t := fe.havocVal(fr.name(v)+"_undef", v.Type())
	fr.vals[v] = t
	return t
}

func (fr *Frame) setVal(v ssa.Value, expr string) Term {
	fe := fr.fe
	k := fe.sorts.SortOf(v.Type())
	n := fr.name(v)
	if _, dup := fr.vals[v]; dup {
		n = fe.fresh(n)
	}
	fe.define(n, k, expr)
	t := Term{n, k, v.Type()}
	fr.vals[v] = t
	fe.noteRef(t)
	return t
}

func (fr *Frame) setHavoc(v ssa.Value) Term {
	t := fr.fe.havocVal(fr.name(v), v.Type())
	fr.vals[v] = t
	fr.fe.noteRef(t)
	return t
}

// noteRef remembers reference-valued terms computed so far: an object allocated later is none of them (a reference read
// from the heap before an allocation cannot be that allocation).
func (fe *FuncEnc) noteRef(t Term) {
	if t.T == nil {
		return
	}
	switch {
	case t.K == SSlice:
		fe.seenRefs = append(fe.seenRefs, "(s_base "+t.S+")")
	case t.K == SInt:
		switch t.T.Underlying().(type) {
		case *types.Pointer, *types.Map, *types.Chan:
			fe.seenRefs = append(fe.seenRefs, t.S)
		}
	}
	if len(fe.seenRefs) > 120 {
		fe.seenRefs = fe.seenRefs[len(fe.seenRefs)-120:]
	}
}

func shortFn(fn *ssa.Function) string {
	s := fn.String()
	return strings.ReplaceAll(s, "github.com/oauth2-proxy/oauth2-proxy/v7", "o2p")
}

// relName is the function name relative to its package: f, (*T).m, (T).m, f$1
func relName(fn *ssa.Function) string {
	if fn.Pkg == nil && fn.Parent() == nil && fn.Signature.Recv() == nil {
		return fn.Name()
	}
	if p := fn.Parent(); p != nil {
		// closure: parent$N
		return relName(p) + strings.TrimPrefix(fn.Name(), p.Name())
	}
	if recv := fn.Signature.Recv(); recv != nil {
		t := recv.Type()
		ptr := false
		if p, ok := t.(*types.Pointer); ok {
			ptr = true
			t = p.Elem()
		}
		tn := ""
		if n, ok := t.(*types.Named); ok {
			tn = n.Obj().Name()
		} else {
			tn = t.String()
		}
		if ptr {
			return "(*" + tn + ")." + fn.Name()
		}
		return "(" + tn + ")." + fn.Name()
	}
	return fn.Name()
}

func fnPkgPath(fn *ssa.Function) string {
	for f := fn; f != nil; f = f.Parent() {
		if f.Pkg != nil {
			return f.Pkg.Pkg.Path()
		}
		if recv := f.Signature.Recv(); recv != nil {
			t := recv.Type()
			if p, ok := t.(*types.Pointer); ok {
				t = p.Elem()
			}
			if n, ok := t.(*types.Named); ok && n.Obj().Pkg() != nil {
				return n.Obj().Pkg().Path()
			}
		}
		if f.Object() != nil && f.Object().Pkg() != nil {
			return f.Object().Pkg().Path()
		}
	}
	return ""
}

// fullName: pkgpath.relname  (used for stdlib contracts and builtin table)
func fullName(fn *ssa.Function) string {
	p := fnPkgPath(fn)
	r := relName(fn)
	if p == "" {
		return r
	}
	if strings.HasPrefix(r, "(*") {
		return "(*" + p + "." + r[2:]
	}
	if strings.HasPrefix(r, "(") {
		return "(" + p + "." + r[1:]
	}
	return p + "." + r
}

// ---- addresses ----

type addrKind int

const (
	aRef addrKind = iota
	aField
	aElem
)

type Addr struct {
	kind   addrKind
	ref    string     // aRef: pointer term; aField with parent==nil: base pointer term
	parent *Addr      // aField nested in another address (struct-valued location)
	stT    types.Type // aField: struct type
	field  int
	slice  string // aElem: slice term (Slice sort) ...
	arrRef string // ... or array base ref (pointer to array)
	idx    string
	T      types.Type // pointee type
}

func (fr *Frame) addrOf(v ssa.Value) *Addr {
	switch x := v.(type) {
	case *ssa.FieldAddr:
		pt := x.X.Type().Underlying().(*types.Pointer).Elem()
		st := pt.Underlying().(*types.Struct)
		a := &Addr{kind: aField, stT: pt, field: x.Field, T: st.Field(x.Field).Type()}
		switch x.X.(type) {
		case *ssa.FieldAddr, *ssa.IndexAddr:
			a.parent = fr.addrOf(x.X)
		default:
			a.ref = fr.val(x.X).S
		}
		return a
	case *ssa.IndexAddr:
		a := &Addr{kind: aElem, idx: fr.val(x.Index).S}
		switch t := x.X.Type().Underlying().(type) {
		case *types.Slice:
			a.slice = fr.val(x.X).S
			a.T = t.Elem()
		case *types.Pointer:
			a.arrRef = fr.val(x.X).S
			a.T = t.Elem().Underlying().(*types.Array).Elem()
		}
		return a
	}
	pt, ok := v.Type().Underlying().(*types.Pointer)
	if !ok {
		return &Addr{kind: aRef, ref: fr.val(v).S, T: v.Type()}
	}
	return &Addr{kind: aRef, ref: fr.val(v).S, T: pt.Elem()}
}

var boundVarRe = regexp.MustCompile(`\bq_?[A-Za-z0-9_]*\b`)

func hasBoundVar(s string) bool {
	for _, m := range boundVarRe.FindAllString(s, -1) {
		if strings.HasPrefix(m, "q_") || m == "qi" {
			return true
		}
	}
	return false
}

// elemRead: element i of slice s (non-byte element type) in the heap version hv. Reads go through the
// uninterpreted function at_<sort> so that quantified facts about elements have matchable patterns; every ground
// read is linked to the array model by an equation.
func (fe *FuncEnc) elemRead(hv string, hsort Sort, s, idx string, es Sort) string {
	fn := "at_" + mangle(string(es))
	fe.pre.decl(fmt.Sprintf("(declare-fun %s (%s Slice Int) %s)", fn, hsort, es))
	t := fmt.Sprintf("(%s %s %s %s)", fn, hv, s, idx)
	if !hasBoundVar(t) {
		link := fmt.Sprintf("(= %s (select (select %s (s_base %s)) (+ (s_off %s) %s)))", t, hv, s, s, idx)
		if !fe.linked[link] {
			fe.linked[link] = true
			fe.assumeGlobal(link) // a definition of the read, true on every path (and emitted once)
		}
	}
	return t
}

func (fe *FuncEnc) loadAddr(st *State, a *Addr) string {
	switch a.kind {
	case aField:
		if a.parent != nil {
			pv := fe.loadAddr(st, a.parent)
			ss := fe.sorts.structInfo(fe.sorts.SortOf(a.stT))
			return fmt.Sprintf("(%s %s)", ss.fnames[a.field], pv)
		}
		h, _ := fe.fieldHeap(a.stT, a.field)
		return fmt.Sprintf("(select %s %s)", fe.hget(st, h), a.ref)
	case aElem:
		h, _, isB := fe.sliceHeap(a.T)
		base, off := a.arrRef, "0"
		if a.slice != "" {
			base = "(s_base " + a.slice + ")"
			off = "(s_off " + a.slice + ")"
		}
		idx := a.idx
		if off != "0" {
			idx = "(+ " + off + " " + a.idx + ")"
		}
		if isB {
			return fmt.Sprintf("(str.to_code (str.at (select %s %s) %s))", fe.hget(st, h), base, idx)
		}
		if a.slice != "" {
			return fe.elemRead(fe.hget(st, h), fe.heapSorts[h], a.slice, a.idx, fe.sorts.SortOf(a.T))
		}
		return fmt.Sprintf("(select (select %s %s) %s)", fe.hget(st, h), base, idx)
	}
	return fe.loadRef(st, a.ref, a.T)
}

// loadRef loads a value of type T through pointer term r.
func (fe *FuncEnc) loadRef(st *State, r string, T types.Type) string {
	if isTimeTime(T) {
		h, _ := fe.ptrHeap(T)
		return fmt.Sprintf("(select %s %s)", fe.hget(st, h), r)
	}
	switch u := T.Underlying().(type) {
	case *types.Struct:
		ss := fe.sorts.structInfo(fe.sorts.SortOf(T))
		if u.NumFields() == 0 {
			return "mk_" + ss.name
		}
		var parts []string
		for i := 0; i < u.NumFields(); i++ {
			h, _ := fe.fieldHeap(T, i)
			parts = append(parts, fmt.Sprintf("(select %s %s)", fe.hget(st, h), r))
		}
		return "(mk_" + ss.name + " " + strings.Join(parts, " ") + ")"
	case *types.Array:
		h, _, _ := fe.sliceHeap(u.Elem())
		return fmt.Sprintf("(select %s %s)", fe.hget(st, h), r)
	}
	h, _ := fe.ptrHeap(T)
	return fmt.Sprintf("(select %s %s)", fe.hget(st, h), r)
}

func (fe *FuncEnc) storeRef(st *State, r string, T types.Type, v string) {
	if !isTimeTime(T) {
		switch u := T.Underlying().(type) {
		case *types.Struct:
			ss := fe.sorts.structInfo(fe.sorts.SortOf(T))
			if u.NumFields() > 0 {
				vn := fe.define(fe.fresh("sv"), Sort(ss.name), v)
				for i := 0; i < u.NumFields(); i++ {
					h, _ := fe.fieldHeap(T, i)
					fe.hset(st, h, fmt.Sprintf("(store %s %s (%s %s))", fe.hget(st, h), r, ss.fnames[i], vn))
				}
			}
			return
		case *types.Array:
			h, _, _ := fe.sliceHeap(u.Elem())
			fe.hset(st, h, fmt.Sprintf("(store %s %s %s)", fe.hget(st, h), r, v))
			return
		}
	}
	h, _ := fe.ptrHeap(T)
	fe.hset(st, h, fmt.Sprintf("(store %s %s %s)", fe.hget(st, h), r, v))
}

func (fe *FuncEnc) storeAddr(st *State, a *Addr, v string) {
	switch a.kind {
	case aField:
		if a.parent != nil {
			pv := fe.loadAddr(st, a.parent)
			ss := fe.sorts.structInfo(fe.sorts.SortOf(a.stT))
			pn := fe.define(fe.fresh("pv"), Sort(ss.name), pv)
			var parts []string
			for i := range ss.fields {
				if i == a.field {
					parts = append(parts, v)
				} else {
					parts = append(parts, fmt.Sprintf("(%s %s)", ss.fnames[i], pn))
				}
			}
			fe.storeAddr(st, a.parent, "(mk_"+ss.name+" "+strings.Join(parts, " ")+")")
			return
		}
		h, _ := fe.fieldHeap(a.stT, a.field)
		fe.hset(st, h, fmt.Sprintf("(store %s %s %s)", fe.hget(st, h), a.ref, v))
	case aElem:
		h, _, isB := fe.sliceHeap(a.T)
		base, off := a.arrRef, "0"
		if a.slice != "" {
			base = "(s_base " + a.slice + ")"
			off = "(s_off " + a.slice + ")"
		}
		idx := a.idx
		if off != "0" {
			idx = "(+ " + off + " " + a.idx + ")"
		}
		cur := fe.hget(st, h)
		if isB {
			// byte store: content of that backing array becomes an unknown string of the same length
			ns := fe.fresh("bst")
			fe.declConst(ns, SString)
			fe.assume(fmt.Sprintf("(= (str.len %s) (str.len (select %s %s)))", ns, cur, base))
			fe.assume(fmt.Sprintf("(= (str.to_code (str.at %s %s)) %s)", ns, idx, v))
			fe.hset(st, h, fmt.Sprintf("(store %s %s %s)", cur, base, ns))
			return
		}
		fe.hset(st, h, fmt.Sprintf("(store %s %s (store (select %s %s) %s %s))", cur, base, cur, base, idx, v))
		// frame fact for the element view: slices over other backing arrays are unchanged
		es := fe.sorts.SortOf(a.T)
		fn := "at_" + mangle(string(es))
		fe.pre.decl(fmt.Sprintf("(declare-fun %s (%s Slice Int) %s)", fn, fe.heapSorts[h], es))
		nh := fe.hget(st, h)
		// element view after the store: cells of other backing arrays read as before
		fe.assume(fmt.Sprintf("(forall ((qs Slice) (qi Int)) (! (=> (not (= (s_base qs) %s)) (= (%s %s qs qi) (%s %s qs qi))) :pattern ((%s %s qs qi))))", base, fn, nh, fn, cur, fn, nh))
		// same backing array: every other cell reads as before (implication form: as an equation with ite the solvers
		// treat it as a macro and undecided queries run into the timeout instead of answering unknown — measured on C19)
		fe.assume(fmt.Sprintf("(forall ((qs Slice) (qi Int)) (! (=> (and (= (s_base qs) %s) (not (= (+ (s_off qs) qi) %s))) (= (%s %s qs qi) (%s %s qs qi))) :pattern ((%s %s qs qi))))", base, idx, fn, nh, fn, cur, fn, nh))
		if a.slice != "" {
			fe.assume(fmt.Sprintf("(= (%s %s %s %s) %s)", fn, nh, a.slice, a.idx, v))
		}
	default:
		fe.storeRef(st, a.ref, a.T, v)
	}
}

// heapsOfAddrStore names the heaps a store through this kind of address writes (for loop havoc sets).
func (fe *FuncEnc) heapsWrittenByStore(addr ssa.Value, out map[string]bool) {
	switch x := addr.(type) {
	case *ssa.FieldAddr:
		pt := x.X.Type().Underlying().(*types.Pointer).Elem()
		switch x.X.(type) {
		case *ssa.FieldAddr, *ssa.IndexAddr:
			fe.heapsWrittenByStore(x.X, out)
		default:
			h, _ := fe.fieldHeap(pt, x.Field)
			out[h] = true
		}
		return
	case *ssa.IndexAddr:
		switch t := x.X.Type().Underlying().(type) {
		case *types.Slice:
			h, _, _ := fe.sliceHeap(t.Elem())
			out[h] = true
		case *types.Pointer:
			h, _, _ := fe.sliceHeap(t.Elem().Underlying().(*types.Array).Elem())
			out[h] = true
		}
		return
	}
	pt, ok := addr.Type().Underlying().(*types.Pointer)
	if !ok {
		return
	}
	T := pt.Elem()
	if !isTimeTime(T) {
		switch u := T.Underlying().(type) {
		case *types.Struct:
			for i := 0; i < u.NumFields(); i++ {
				h, _ := fe.fieldHeap(T, i)
				out[h] = true
			}
			return
		case *types.Array:
			h, _, _ := fe.sliceHeap(u.Elem())
			out[h] = true
			return
		}
	}
	h, _ := fe.ptrHeap(T)
	out[h] = true
}

func sortedBlocks(m map[*ssa.BasicBlock]bool) []*ssa.BasicBlock {
	var bs []*ssa.BasicBlock
	for b := range m {
		bs = append(bs, b)
	}
	sort.Slice(bs, func(i, j int) bool { return bs[i].Index < bs[j].Index })
	return bs
}
