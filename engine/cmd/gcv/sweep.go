package main

// Zero-annotation safety sweep over the request-handling cone (C19).

import (
	"encoding/json"
	"fmt"
	"go/types"
	"os"
	"path/filepath"
	"sort"
	"strings"

	"golang.org/x/tools/go/ssa"
)

var sweepProps = map[string]bool{"C19": true}

type sweepItem struct {
	o      *Oblig
	replay *ReplayRecord
}

type sweepResult struct {
	prop           string
	cone           []*ssa.Function
	obls           []*Oblig
	claimed        []*Oblig
	undecided      []*Oblig
	newReplayed    []sweepItem
	assumed        map[string]bool
	ledger         map[string]bool
	notes          map[string]bool
	skipped        []string
	knownUndecided map[string]bool // undecided on the pinned tree (never replayed again)
	contracted     map[*Oblig]bool // obligations of functions whose contract carries the safety flag: always claimed
}

func isHandlerSig(sig *types.Signature) bool {
	if sig.Params().Len() != 2 {
		return false
	}
	return sig.Params().At(0).Type().String() == "net/http.ResponseWriter" && sig.Params().At(1).Type().String() == "*net/http.Request"
}

// requestCone: functions of /repo reachable from the HTTP entry points.
func (eng *Engine) requestCone() []*ssa.Function {
	fns := eng.repoFunctions()
	byMethod := map[string][]*ssa.Function{}
	for _, fn := range fns {
		if fn.Signature.Recv() != nil {
			byMethod[fn.Name()] = append(byMethod[fn.Name()], fn)
		}
	}
	in := map[*ssa.Function]bool{}
	var work []*ssa.Function
	add := func(f *ssa.Function) {
		if f == nil || in[f] || !eng.inRepo(f) || len(f.Blocks) == 0 {
			return
		}
		if pos := eng.prog.Fset.Position(f.Pos()); strings.HasSuffix(pos.Filename, "_test.go") {
			return
		}
		in[f] = true
		work = append(work, f)
	}
	for _, fn := range fns {
		sig := fn.Signature
		if fn.Signature.Recv() != nil {
			// method: look at the signature without receiver
			if fn.Name() == "ServeHTTP" && sig.Params().Len() == 2 {
				add(fn)
			}
			if fn.Name() == "RoundTrip" {
				add(fn)
			}
		}
		if isHandlerSig(sig) {
			// handler-shaped functions and closures (middleware bodies, OAuthProxy handlers)
			if fn.Parent() != nil || strings.HasPrefix(fnPkgPath(fn), modPath) {
				add(fn)
			}
		}
	}
	for len(work) > 0 {
		f := work[len(work)-1]
		work = work[:len(work)-1]
		for _, b := range f.Blocks {
			for _, ins := range b.Instrs {
				if ci, ok := ins.(ssa.CallInstruction); ok {
					cc := ci.Common()
					if cc.IsInvoke() {
						// class-hierarchy style: every repo method of that name whose receiver implements the interface
						it, _ := cc.Value.Type().Underlying().(*types.Interface)
						for _, m := range byMethod[cc.Method.Name()] {
							if it == nil || types.Implements(m.Signature.Recv().Type(), it) {
								add(m)
							}
						}
					} else if sf := cc.StaticCallee(); sf != nil {
						add(sf)
					}
				}
				for _, op := range ins.Operands(nil) {
					switch x := (*op).(type) {
					case *ssa.Function:
						add(x)
					case *ssa.MakeClosure:
						if cf, ok := x.Fn.(*ssa.Function); ok {
							add(cf)
						}
					}
				}
			}
		}
	}
	// A handler closure calls what its constructor captured for it: the closures the parent makes and the functions the parent
	// uses as values (not as callees) are reachable through the handler's free variables although no call edge names them
	// (loadBasicAuthSession$1 is `getSession` inside loadBasicAuthSession$2). The parent itself stays outside the cone.
	for changed := true; changed; {
		changed = false
		var snapshot []*ssa.Function
		for f := range in {
			snapshot = append(snapshot, f)
		}
		sort.Slice(snapshot, func(i, j int) bool { return eng.displayName(snapshot[i]) < eng.displayName(snapshot[j]) })
		for _, f := range snapshot {
			par := f.Parent()
			if par == nil || in[par] {
				continue
			}
			before := len(in)
			for _, b := range par.Blocks {
				for _, ins := range b.Instrs {
					var callee ssa.Value
					if ci, ok := ins.(ssa.CallInstruction); ok && !ci.Common().IsInvoke() {
						callee = ci.Common().Value
					}
					for _, op := range ins.Operands(nil) {
						switch x := (*op).(type) {
						case *ssa.Function:
							if ssa.Value(x) != callee {
								add(x)
							}
						case *ssa.MakeClosure:
							if cf, ok := x.Fn.(*ssa.Function); ok {
								add(cf)
							}
						}
					}
				}
			}
			if len(in) != before {
				changed = true
			}
		}
		for len(work) > 0 {
			f := work[len(work)-1]
			work = work[:len(work)-1]
			for _, b := range f.Blocks {
				for _, ins := range b.Instrs {
					if ci, ok := ins.(ssa.CallInstruction); ok {
						cc := ci.Common()
						if cc.IsInvoke() {
							it, _ := cc.Value.Type().Underlying().(*types.Interface)
							for _, m := range byMethod[cc.Method.Name()] {
								if it == nil || types.Implements(m.Signature.Recv().Type(), it) {
									add(m)
								}
							}
						} else if sf := cc.StaticCallee(); sf != nil {
							add(sf)
						}
					}
					for _, op := range ins.Operands(nil) {
						switch x := (*op).(type) {
						case *ssa.Function:
							add(x)
						case *ssa.MakeClosure:
							if cf, ok := x.Fn.(*ssa.Function); ok {
								add(cf)
							}
						}
					}
				}
			}
		}
	}
	var out []*ssa.Function
	for f := range in {
		// constructors and start-up code that only runs before serving are not part of the cone even if referenced
		out = append(out, f)
	}
	sort.Slice(out, func(i, j int) bool { return eng.displayName(out[i]) < eng.displayName(out[j]) })
	return out
}

func ledgerPath(verif, prop string) string { return filepath.Join(verif, "ledger", prop+".json") }

func (eng *Engine) runSweep(prop, verif string, update bool) *sweepResult {
	sw := &sweepResult{prop: prop, assumed: map[string]bool{}, ledger: map[string]bool{}, notes: map[string]bool{}, contracted: map[*Oblig]bool{}, knownUndecided: map[string]bool{}}
	if data, err := os.ReadFile(ledgerPath(verif, prop)); err == nil {
		var lf ledgerFile
		json.Unmarshal(data, &lf)
		for _, id := range lf.Discharged {
			sw.ledger[id] = true
		}
		for _, id := range lf.Undecided {
			sw.knownUndecided[id] = true
		}
	}
	sw.cone = eng.requestCone()
	eng.sweepMode = true
	eng.sweepProps = []string{prop}
	defer func() { eng.sweepMode = false }()
	for _, fn := range sw.cone {
		fc := eng.contractFor(fn)
		if fc != nil && fc.Trusted {
			sw.skipped = append(sw.skipped, eng.displayName(fn)+" (trusted)")
			continue
		}
		n := 0
		for _, b := range fn.Blocks {
			n += len(b.Instrs)
		}
		if n > 1500 {
			sw.skipped = append(sw.skipped, eng.displayName(fn)+" (too large)")
			continue
		}
		var use *FuncContract
		if fc != nil {
			cp := *fc
			cp.Shallow = true
			use = &cp
		} else {
			use = &FuncContract{Pkg: fnPkgPath(fn), Name: relName(fn), LoopInv: map[int][]*Clause{}, Nilable: map[string]bool{}, Shallow: true}
		}
		res := func() (r *FuncResult) {
			defer func() {
				if rec := recover(); rec != nil {
					sw.skipped = append(sw.skipped, fmt.Sprintf("%s (encoder: %v)", eng.displayName(fn), rec))
					r = nil
				}
			}()
			return eng.encodeFunction(fn, use, nil)
		}()
		if res == nil {
			continue
		}
		for _, a := range res.Assumed {
			if strings.Contains(a, "configuration invariant") || strings.Contains(a, "axiom") {
				sw.assumed[a] = true
			}
		}
		for _, nn := range res.Notes {
			sw.notes[nn] = true
		}
		for _, o := range res.Obls {
			if o.Kind == "safety" {
				sw.obls = append(sw.obls, o)
				if fc != nil && fc.Safety {
					sw.contracted[o] = true
				}
			}
		}
	}
	return sw
}

func (sw *sweepResult) finish(eng *Engine, verif string, update bool) {
	if update {
		var lf ledgerFile
		for _, o := range sw.obls {
			if o.Result == "unsat" {
				lf.Discharged = append(lf.Discharged, o.ID)
			} else {
				lf.Undecided = append(lf.Undecided, o.ID)
			}
		}
		sort.Strings(lf.Discharged)
		sort.Strings(lf.Undecided)
		os.MkdirAll(filepath.Join(verif, "ledger"), 0o755)
		data, _ := json.MarshalIndent(lf, "", " ")
		os.WriteFile(ledgerPath(verif, sw.prop), append(data, '\n'), 0o644)
		sw.ledger = map[string]bool{}
		sw.knownUndecided = map[string]bool{}
		for _, id := range lf.Discharged {
			sw.ledger[id] = true
		}
		for _, id := range lf.Undecided {
			sw.knownUndecided[id] = true
		}
	}
	for _, o := range sw.obls {
		if sw.ledger[o.ID] || sw.contracted[o] {
			sw.claimed = append(sw.claimed, o)
		} else if o.Result != "unsat" {
			sw.undecided = append(sw.undecided, o)
		} else {
			// newly provable obligation (not yet in the ledger): counts, it is discharged
			sw.claimed = append(sw.claimed, o)
		}
	}
	// new failing obligations: only reported when the solver's model reproduces a panic on the real code
	for _, o := range sw.undecided {
		if o.Result != "sat" && !o.candidate {
			continue
		}
		if sw.known(verif, o) {
			continue
		}
		// nil-ness of pointer/interface fields is where data-structure invariants live: a replay that builds the receiver
		// from a model may crash only because the model violates such an invariant. New nil-class obligations are
		// therefore never reported from the zero-annotation sweep (they are when the function is under a `safety` contract).
		if strings.HasPrefix(o.Label, "nil-") {
			continue
		}
		r := &ReplayRecord{Property: sw.prop, Obligation: o.ID, Kind: o.Kind, Clause: o.Src, Function: o.Fn, Position: o.Pos.String(), Result: o.Result, Solver: o.Solver}
		tryReplay(eng, verif, o, r)
		if r.Reproduced {
			out := o.Model
			if len(out) > 60000 {
				out = out[:60000]
			}
			r.Output = out
			r.Path = filepath.Join(verif, "replays", fmt.Sprintf("%s-%08x.json", sw.prop, hashStr(o.ID)))
			data, _ := json.MarshalIndent(r, "", " ")
			os.MkdirAll(filepath.Join(verif, "replays"), 0o755)
			os.WriteFile(r.Path, append(data, '\n'), 0o644)
			sw.newReplayed = append(sw.newReplayed, sweepItem{o, r})
		}
	}
}

// known: undecided obligations listed as accepted-undecided in the ledger's companion file never replay.
func (sw *sweepResult) known(verif string, o *Oblig) bool { return sw.knownUndecided[o.ID] }

type ledgerFile struct {
	Discharged []string `json:"discharged"`
	Undecided  []string `json:"undecided_on_pinned_tree"`
}

func (sw *sweepResult) summary() map[string]interface{} {
	kinds := map[string]int{}
	for _, o := range sw.claimed {
		k := o.Label
		if i := strings.Index(k, ":"); i >= 0 {
			k = k[:i]
		}
		kinds[k]++
	}
	var und []string
	for _, o := range sw.undecided {
		und = append(und, o.ID)
	}
	sort.Strings(und)
	if len(und) > 400 {
		und = und[:400]
	}
	return map[string]interface{}{
		"cone_functions":               len(sw.cone),
		"safety_obligations_generated": len(sw.obls),
		"claimed_and_discharged":       len(sw.claimed),
		"discharged_by_kind":           kinds,
		"undecided_not_claimed":        len(sw.undecided),
		"undecided_ids":                und,
		"skipped_functions":            sw.skipped,
		"ledger_entries":               len(sw.ledger),
		"rule":                         "an obligation is claimed iff it discharged on the pinned tree (ledger) or discharges now; an undecided obligation raises a violation only if its model reproduces a panic on the real code",
	}
}
