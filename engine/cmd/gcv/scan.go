package main

// Structural ("scan") obligations computed on the SSA of the whole repository:
// write-sets, read-sets, caller sets, header read-set, allocation sites, lock discipline, atomic-only fields.

import (
	"fmt"
	"go/token"
	"go/types"
	"os"
	"sort"
	"strings"

	"golang.org/x/tools/go/ssa"
)

func (eng *Engine) hasScans(prop string) bool {
	for _, s := range eng.specs.scans {
		if contains(s.Props, prop) {
			return true
		}
	}
	for range eng.specs.guarded {
		if prop == "C20" {
			return true
		}
	}
	return false
}

// repoFunctions: all functions (including closures) of /repo packages, deterministic order.
func (eng *Engine) repoFunctions() []*ssa.Function {
	var fs []*ssa.Function
	for fn := range eng.allFns {
		if eng.inRepo(fn) && fn.Synthetic == "" && len(fn.Blocks) > 0 {
			if pos := eng.prog.Fset.Position(fn.Pos()); strings.HasSuffix(pos.Filename, "_test.go") {
				continue
			}
			fs = append(fs, fn)
		}
	}
	sort.Slice(fs, func(i, j int) bool { return eng.displayName(fs[i]) < eng.displayName(fs[j]) })
	return fs
}

// fieldOf: "Type.field" with Type resolved relative to pkgPath (or "pkgname.Type.field" / full path).
func (eng *Engine) resolveTypeField(pkgPath, spec string) (owner string, field string) {
	i := strings.LastIndex(spec, ".")
	if i < 0 {
		return "", ""
	}
	tn, field := spec[:i], spec[i+1:]
	if strings.Contains(tn, ".") {
		j := strings.LastIndex(tn, ".")
		pn, t := tn[:j], tn[j+1:]
		if p := eng.allPkgs[pn]; p != nil {
			return pn + "." + t, field
		}
		if p := eng.pkgByName(pn); p != nil {
			return p.Path() + "." + t, field
		}
		return tn, field
	}
	return pkgPath + "." + tn, field
}

func fieldAddrOwner(fa *ssa.FieldAddr) (owner, field string) {
	stT := fa.X.Type().Underlying().(*types.Pointer).Elem()
	p, n := typeOwner(stT)
	return p + "." + n, stT.Underlying().(*types.Struct).Field(fa.Field).Name()
}

func (eng *Engine) fnAllowed(fn *ssa.Function, allowed []string) bool {
	dn := eng.displayName(fn)
	rn := relName(fn)
	for _, a := range allowed {
		if a == dn || a == rn {
			return true
		}
		if strings.HasSuffix(a, "*") && (strings.HasPrefix(dn, strings.TrimSuffix(a, "*")) || strings.HasPrefix(rn, strings.TrimSuffix(a, "*"))) {
			return true
		}
	}
	return false
}

func (eng *Engine) site(in ssa.Instruction) string {
	fn := in.Parent()
	pos := eng.prog.Fset.Position(in.Pos())
	file := pos.Filename
	if i := strings.Index(file, "/pkg/"); i >= 0 {
		file = file[i+1:]
	} else if j := strings.LastIndex(file, "/"); j >= 0 {
		file = file[j+1:]
	}
	return fmt.Sprintf("%s (%s:%d)", eng.displayName(fn), file, pos.Line)
}

func (eng *Engine) runScans(prop string) []*Oblig {
	var out []*Oblig
	fns := eng.repoFunctions()
	for _, sc := range eng.specs.scans {
		if !contains(sc.Props, prop) {
			continue
		}
		var bad []string
		covered := 0
		switch sc.Kind {
		case "field-writers", "field-readers":
			if len(sc.Args) < 1 {
				bad = append(bad, "malformed scan")
				break
			}
			owner, field := eng.resolveTypeField(sc.Pkg, sc.Args[0])
			allowed := sc.Args[1:]
			for _, fn := range fns {
				for _, b := range fn.Blocks {
					for _, in := range b.Instrs {
						fa, ok := in.(*ssa.FieldAddr)
						if !ok {
							continue
						}
						o, f := fieldAddrOwner(fa)
						if o != owner || (field != "*" && f != field) {
							continue
						}
						for _, r := range *fa.Referrers() {
							isWrite, isRead := false, false
							switch x := r.(type) {
							case *ssa.Store:
								if x.Addr == ssa.Value(fa) {
									isWrite = true
								} else {
									isWrite, isRead = true, true // the address itself is stored somewhere
								}
							case *ssa.UnOp:
								isRead = true
							case *ssa.DebugRef:
								continue
							default:
								isWrite, isRead = true, true // address passed on: conservatively both
							}
							if (sc.Kind == "field-writers" && !isWrite) || (sc.Kind == "field-readers" && !isRead) {
								continue
							}
							covered++
							if !eng.fnAllowed(fn, allowed) {
								bad = append(bad, eng.site(r))
							}
						}
					}
				}
			}
			// struct literals `T{f: v}` through value construction do not produce FieldAddr on pointers except via Alloc: covered above
		case "callers":
			if len(sc.Args) < 1 {
				bad = append(bad, "malformed scan")
				break
			}
			target := sc.Args[0]
			allowed := sc.Args[1:]
			for _, fn := range fns {
				for _, b := range fn.Blocks {
					for _, in := range b.Instrs {
						// direct calls, defers, go, and uses of the function as a value
						if ci, ok := in.(ssa.CallInstruction); ok {
							if eng.callMatches(ci, target, sc.Pkg) {
								covered++
								if !eng.fnAllowed(fn, allowed) {
									bad = append(bad, eng.site(in))
								}
							}
						}
						for _, op := range in.Operands(nil) {
							if f, ok := (*op).(*ssa.Function); ok {
								if ci, isCall := in.(ssa.CallInstruction); isCall && ci.Common().Value == *op {
									continue
								}
								if eng.fnMatches(f, target, sc.Pkg) {
									covered++
									if !eng.fnAllowed(fn, allowed) {
										bad = append(bad, eng.site(in)+" [function value]")
									}
								}
							}
						}
					}
				}
			}
		case "params-captured-as-given":
			// Every function named: a parameter that closures capture keeps the value the caller passed (its cell is written once,
			// by the spill at entry), so what a handler closure sees under that name is what the constructor was given.
			for _, fn := range fns {
				if !eng.fnAllowed(fn, sc.Args) {
					continue
				}
				covered++
				for _, b := range fn.Blocks {
					for _, in := range b.Instrs {
						al, ok := in.(*ssa.Alloc)
						if !ok || al.Referrers() == nil {
							continue
						}
						isParam := false
						for _, p := range fn.Params {
							if p.Name() == al.Comment {
								isParam = true
							}
						}
						if !isParam {
							continue
						}
						stores := 0
						for _, r := range *al.Referrers() {
							if st, ok := r.(*ssa.Store); ok && st.Addr == ssa.Value(al) {
								stores++
								if _, fromParam := st.Val.(*ssa.Parameter); !fromParam || st.Block() != fn.Blocks[0] {
									bad = append(bad, eng.site(st)+" [parameter "+al.Comment+" reassigned]")
								}
							}
						}
						// closures writing the captured cell
						for _, r := range *al.Referrers() {
							if mc, ok := r.(*ssa.MakeClosure); ok {
								if cf, ok := mc.Fn.(*ssa.Function); ok {
									for bi, bnd := range mc.Bindings {
										if bnd == ssa.Value(al) && bi < len(cf.FreeVars) && cellWritten(cf.FreeVars[bi], 0) {
											bad = append(bad, eng.site(mc)+" [parameter "+al.Comment+" written or leaked by a closure]")
										}
									}
								}
							}
						}
						_ = stores
					}
				}
			}
		case "method-value-wrapped":
			// method-value-wrapped METHOD WRAPPER RECVFIELD allowedFn...: every use of METHOD as a value (bound method)
			// is directly the argument of a call of WRAPPER whose receiver was loaded from field RECVFIELD, inside an allowed function
			if len(sc.Args) < 3 {
				bad = append(bad, "malformed scan")
				break
			}
			method, wrapper, recvField := sc.Args[0], sc.Args[1], sc.Args[2]
			allowed := sc.Args[3:]
			for _, fn := range fns {
				for _, b := range fn.Blocks {
					for _, in := range b.Instrs {
						mc, ok := in.(*ssa.MakeClosure)
						if !ok {
							continue
						}
						cf, ok := mc.Fn.(*ssa.Function)
						if !ok || !strings.HasSuffix(cf.Name(), "$bound") {
							continue
						}
						if relNameBound(cf) != method || fnPkgPath(fn) != sc.Pkg {
							continue
						}
						covered++
						okUse := eng.fnAllowed(fn, allowed)
						for _, r := range *mc.Referrers() {
							if _, isDbg := r.(*ssa.DebugRef); isDbg {
								continue
							}
							var use ssa.Instruction = r
							// through a ChangeType to http.HandlerFunc-like types
							if ct, isCT := r.(*ssa.ChangeType); isCT && ct.Referrers() != nil && len(*ct.Referrers()) == 1 {
								use = (*ct.Referrers())[0]
							}
							call, isCall := use.(*ssa.Call)
							if !isCall || callShort(call) != wrapper || len(call.Common().Args) == 0 {
								okUse = false
								continue
							}
							recvOK := false
							if u, isU := call.Common().Args[0].(*ssa.UnOp); isU {
								if fa, isFA := u.X.(*ssa.FieldAddr); isFA {
									_, f := fieldAddrOwner(fa)
									recvOK = f == recvField
								}
							}
							if !recvOK {
								okUse = false
							}
						}
						if !okUse {
							bad = append(bad, eng.site(in)+" uses "+method+" as a handler outside "+recvField+"."+wrapper)
						}
					}
				}
			}
		case "frozen-after-publish":
			// in the named functions: a map whose address is handed to atomic.StorePointer is not updated afterwards
			for _, fn := range fns {
				if !eng.fnAllowed(fn, sc.Args) {
					continue
				}
				for _, b := range fn.Blocks {
					for idx, in := range b.Instrs {
						call, ok := in.(*ssa.Call)
						if !ok {
							continue
						}
						f := call.Common().StaticCallee()
						if f == nil || fullName(f) != "sync/atomic.StorePointer" || len(call.Common().Args) < 2 {
							continue
						}
						covered++
						// the published cell: &x behind a conversion to unsafe.Pointer
						var cell ssa.Value = call.Common().Args[1]
						for {
							if cv, ok := cell.(*ssa.Convert); ok {
								cell = cv.X
								continue
							}
							if ct, ok := cell.(*ssa.ChangeType); ok {
								cell = ct.X
								continue
							}
							break
						}
						// instructions reachable after the call
						seen := map[*ssa.BasicBlock]bool{}
						var after []ssa.Instruction
						after = append(after, b.Instrs[idx+1:]...)
						work := append([]*ssa.BasicBlock{}, b.Succs...)
						for len(work) > 0 {
							x := work[len(work)-1]
							work = work[:len(work)-1]
							if seen[x] {
								continue
							}
							seen[x] = true
							after = append(after, x.Instrs...)
							work = append(work, x.Succs...)
						}
						for _, a := range after {
							mu, ok := a.(*ssa.MapUpdate)
							if !ok {
								continue
							}
							if ld, ok := mu.Map.(*ssa.UnOp); ok && ld.X == cell {
								bad = append(bad, eng.site(a)+" updates the map after it was published by StorePointer")
							}
						}
					}
				}
			}
		case "slice-field-frozen":
			// slice-field-frozen T.f allowed...: outside the allowed functions no code writes an element of the slice held in
			// field f of T, appends to it in place, or hands it to code that may (any callee that is not known read-only)
			if len(sc.Args) < 1 || !strings.Contains(sc.Args[0], ".") {
				bad = append(bad, "malformed scan")
				break
			}
			dot := strings.LastIndex(sc.Args[0], ".")
			tname, fname := sc.Args[0][:dot], sc.Args[0][dot+1:]
			allowed := sc.Args[1:]
			readOnly := func(name string) bool {
				for _, p := range []string{"strings.Join", "strings.", "fmt.", "len", "cap", "reflect.DeepEqual"} {
					if name == p || (strings.HasSuffix(p, ".") && strings.HasPrefix(name, p)) {
						return true
					}
				}
				return false
			}
			for _, fn := range fns {
				// values derived from a load of the field
				derived := map[ssa.Value]bool{}
				isField := func(v ssa.Value) bool {
					switch x := v.(type) {
					case *ssa.UnOp:
						if fa, ok := x.X.(*ssa.FieldAddr); ok && x.Op == token.MUL {
							st := fa.X.Type().Underlying().(*types.Pointer).Elem()
							_, n := typeOwner(st)
							return n == tname && st.Underlying().(*types.Struct).Field(fa.Field).Name() == fname
						}
					case *ssa.Field:
						_, n := typeOwner(x.X.Type())
						if stt, ok := x.X.Type().Underlying().(*types.Struct); ok {
							return n == tname && stt.Field(x.Field).Name() == fname
						}
					}
					return false
				}
				changed := true
				for changed {
					changed = false
					for _, b := range fn.Blocks {
						for _, in := range b.Instrs {
							v, ok := in.(ssa.Value)
							if !ok || derived[v] {
								continue
							}
							d := isField(v)
							switch x := in.(type) {
							case *ssa.Slice:
								d = d || derived[x.X]
							case *ssa.Phi:
								for _, e := range x.Edges {
									d = d || derived[e]
								}
							case *ssa.ChangeType:
								d = d || derived[x.X]
							case *ssa.MakeInterface:
								d = d || derived[x.X]
							}
							if d {
								derived[v] = true
								changed = true
							}
						}
					}
				}
				if len(derived) == 0 {
					continue
				}
				covered++
				if eng.fnAllowed(fn, allowed) {
					continue
				}
				for _, b := range fn.Blocks {
					for _, in := range b.Instrs {
						switch x := in.(type) {
						case *ssa.Store:
							if ia, ok := x.Addr.(*ssa.IndexAddr); ok && derived[ia.X] {
								bad = append(bad, eng.site(in)+" writes an element of "+sc.Args[0])
							}
						case *ssa.MapUpdate:
							// (map-typed fields: an entry added or overwritten)
							if derived[x.Map] {
								bad = append(bad, eng.site(in)+" updates an entry of "+sc.Args[0])
							}
						case ssa.CallInstruction:
							cc := x.Common()
							name := ""
							if bi, ok := cc.Value.(*ssa.Builtin); ok {
								name = bi.Name()
							} else if f := cc.StaticCallee(); f != nil {
								name = fullName(f)
								if eng.inRepo(f) {
									if fc := eng.contractFor(f); fc != nil && (fc.NoMod || fc.Pure) {
										continue // verified read-only
									}
								}
							}
							for ai, a := range cc.Args {
								if !derived[a] {
									continue
								}
								if (name == "append" || name == "copy") && ai != 0 {
									continue // source operand
								}
								if readOnly(name) {
									continue
								}
								if name == "" {
									name = "a dynamic call"
								}
								bad = append(bad, eng.site(in)+" passes "+sc.Args[0]+" to "+name)
							}
						}
					}
				}
			}
		case "header-readers":
			// every read of a forwarding / real-client-IP request header is inside an allowed function
			allowed := sc.Args
			for _, fn := range fns {
				for _, b := range fn.Blocks {
					for _, in := range b.Instrs {
						key, ok := headerKeyRead(in)
						if !ok {
							continue
						}
						if !forwardingHeader(key) {
							continue
						}
						covered++
						if !eng.fnAllowed(fn, allowed) {
							bad = append(bad, eng.site(in)+" reads "+key)
						}
					}
				}
			}
		case "alloc-of":
			// composite literals / new(T) of a type only in allowed functions
			if len(sc.Args) < 1 {
				bad = append(bad, "malformed scan")
				break
			}
			tn := sc.Args[0]
			allowed := sc.Args[1:]
			for _, fn := range fns {
				for _, b := range fn.Blocks {
					for _, in := range b.Instrs {
						al, ok := in.(*ssa.Alloc)
						if !ok {
							continue
						}
						el := al.Type().Underlying().(*types.Pointer).Elem()
						if _, isPtr := el.(*types.Pointer); isPtr {
							continue // a cell holding a pointer (captured receiver), not an object of the type
						}
						p, n := typeOwner(el)
						if p+"."+n != tn && shortPkg(p)+"."+n != tn {
							continue
						}
						if copyOfParam(al) {
							continue // the addressable copy of a by-value parameter (value receivers): an existing object, not a new one
						}
						covered++
						if !eng.fnAllowed(fn, allowed) {
							bad = append(bad, eng.site(in))
						}
					}
				}
			}
		case "cookie-constructor":
			// every value passed to http.SetCookie is the result of an allowed constructor (def-use)
			allowed := sc.Args
			for _, fn := range fns {
				for _, b := range fn.Blocks {
					for _, in := range b.Instrs {
						ci, ok := in.(ssa.CallInstruction)
						if !ok || !eng.callMatches(ci, "net/http.SetCookie", sc.Pkg) {
							continue
						}
						covered++
						if len(ci.Common().Args) < 2 || !eng.fromConstructor(ci.Common().Args[1], allowed, 0) {
							bad = append(bad, eng.site(in))
						}
					}
				}
			}
		case "atomic-only":
			owner, field := eng.resolveTypeField(sc.Pkg, sc.Args[0])
			for _, fn := range fns {
				for _, b := range fn.Blocks {
					for _, in := range b.Instrs {
						fa, ok := in.(*ssa.FieldAddr)
						if !ok {
							continue
						}
						o, f := fieldAddrOwner(fa)
						if o != owner || f != field {
							continue
						}
						for _, r := range *fa.Referrers() {
							if _, ok := r.(*ssa.DebugRef); ok {
								continue
							}
							covered++
							ci, ok := r.(ssa.CallInstruction)
							if !ok {
								bad = append(bad, eng.site(r)+" non-atomic access")
								continue
							}
							f := ci.Common().StaticCallee()
							if f == nil || !strings.HasPrefix(fullName(f), "sync/atomic.") {
								bad = append(bad, eng.site(r)+" non-atomic access")
							}
						}
					}
				}
			}
		case "guarded":
			// guarded Type.field mutexField
			if len(sc.Args) < 2 {
				bad = append(bad, "malformed scan")
				break
			}
			owner, field := eng.resolveTypeField(sc.Pkg, sc.Args[0])
			// further arguments: functions that only ever receive objects still owned by their caller
			var checked []*ssa.Function
			for _, fn := range fns {
				if !eng.fnAllowed(fn, sc.Args[2:]) {
					checked = append(checked, fn)
				}
			}
			b2, c2 := eng.lockDiscipline(checked, owner, field, sc.Args[1])
			bad = append(bad, b2...)
			covered += c2
		default:
			bad = append(bad, "unknown scan kind "+sc.Kind)
		}
		o := &Oblig{Kind: "scan", Props: sc.Props, Label: sc.Label, Fn: shortPkg(sc.Pkg), Src: "scan " + sc.Kind + " " + strings.Join(sc.Args, " "),
			Result: "unsat", Solver: "ssa-scan"}
		o.ID = fmt.Sprintf("%s:%s:scan:%s", strings.Join(sc.Props, "+"), shortPkg(sc.Pkg), sc.Label)
		if covered == 0 && sc.Kind != "header-readers" && sc.Kind != "field-writers" {
			bad = append(bad, "scan covers no site at all (target renamed or removed?)")
		}
		if len(bad) > 0 {
			o.Result = "sat"
			o.Model = "sites outside the declared set:\n  " + strings.Join(bad, "\n  ")
			o.Err = "structural obligation violated at: " + strings.Join(bad, "; ")
		}
		o.Src += fmt.Sprintf(" [%d sites]", covered)
		out = append(out, o)
	}
	out = append(out, eng.stableScans(prop, fns)...)
	return out
}

// stableScans: `stable T.f` lets callers keep what they know about field f across calls they know nothing about. That is an
// assumption about every function of the repository, so it is checked here whenever no explicit writer scan covers the field:
// outside initialisation — a store into an object the storing function itself allocated (composite literals, new) — nothing
// in /repo writes the field or lets its address escape. The obligation belongs to every property that has a contract in the
// declaring package.
func (eng *Engine) stableScans(prop string, fns []*ssa.Function) []*Oblig {
	covered := map[string]bool{}
	for _, sc := range eng.specs.scans {
		switch sc.Kind {
		case "field-writers", "frozen-after-publish":
			if len(sc.Args) > 0 {
				o, f := eng.resolveTypeField(sc.Pkg, sc.Args[0])
				covered[o+"."+f] = true
			}
		}
	}
	pkgHasProp := map[string]bool{}
	for _, fc := range eng.specs.funcs {
		if contractHasProp(fc, prop) {
			pkgHasProp[fc.Pkg] = true
		}
	}
	var out []*Oblig
	for _, key := range sortedKeys(eng.specs.stable) {
		i := strings.LastIndex(key, ".")
		owner, field := key[:i], key[i+1:]
		j := strings.LastIndex(owner, ".")
		if j < 0 {
			continue
		}
		pkg := owner[:j]
		if !strings.HasPrefix(pkg, modPath) || (!pkgHasProp[pkg] && os.Getenv("GCV_ALL_STABLE") == "") || covered[key] || covered[owner+".*"] {
			continue
		}
		var bad []string
		sites := 0
		for _, fn := range fns {
			for _, b := range fn.Blocks {
				for _, in := range b.Instrs {
					fa, ok := in.(*ssa.FieldAddr)
					if !ok || fa.Referrers() == nil {
						continue
					}
					o, f := fieldAddrOwner(fa)
					if o != owner || (field != "*" && f != field) {
						continue
					}
					for _, r := range *fa.Referrers() {
						switch x := r.(type) {
						case *ssa.UnOp, *ssa.DebugRef:
							continue
						case *ssa.Store:
							if x.Addr == ssa.Value(fa) {
								sites++
								if _, own := fa.X.(*ssa.Alloc); !own {
									bad = append(bad, eng.site(r))
								}
								continue
							}
						case *ssa.FieldAddr, *ssa.IndexAddr:
							continue // interior of a struct- or array-typed field: its own stores are looked at under that type
						}
						sites++
						if _, own := fa.X.(*ssa.Alloc); !own {
							bad = append(bad, eng.site(r)+" (address passed on)")
						}
					}
				}
			}
		}
		label := "stable:" + key[len(pkg)+1:]
		o := &Oblig{Kind: "scan", Props: []string{prop}, Label: label, Fn: shortPkg(pkg), Result: "unsat", Solver: "ssa-scan",
			Src: fmt.Sprintf("scan stable %s: written only while the object is being initialised by the function that allocated it [%d sites]", key[len(pkg)+1:], sites)}
		o.ID = fmt.Sprintf("%s:%s:scan:%s", prop, shortPkg(pkg), label)
		if len(bad) > 0 {
			o.Result = "sat"
			o.Model = "writes outside initialisation:\n  " + strings.Join(bad, "\n  ")
			o.Err = "structural obligation violated at: " + strings.Join(bad, "; ")
		}
		out = append(out, o)
	}
	return out
}

func (eng *Engine) fnMatches(f *ssa.Function, target, pkg string) bool {
	fnm := fullName(f)
	if fnm == target {
		return true
	}
	if fnPkgPath(f) == pkg && relName(f) == target {
		return true
	}
	return eng.displayName(f) == target
}

func (eng *Engine) callMatches(ci ssa.CallInstruction, target, pkg string) bool {
	cc := ci.Common()
	if cc.IsInvoke() {
		return ifaceKey(cc.Value.Type(), cc.Method) == target || (strings.HasPrefix(target, "iface:") && cc.Method.Name() == strings.TrimPrefix(target, "iface:"))
	}
	f := cc.StaticCallee()
	if f == nil {
		return false
	}
	return eng.fnMatches(f, target, pkg)
}

// fromConstructor: def-use closure: v comes from an allowed constructor call.
func (eng *Engine) fromConstructor(v ssa.Value, allowed []string, depth int) bool {
	if depth > 6 {
		return false
	}
	switch x := v.(type) {
	case *ssa.Call:
		f := x.Common().StaticCallee()
		if f != nil && eng.fnAllowed(f, allowed) {
			return true
		}
		return false
	case *ssa.Extract:
		return eng.fromConstructor(x.Tuple, allowed, depth+1)
	case *ssa.Phi:
		for _, e := range x.Edges {
			if !eng.fromConstructor(e, allowed, depth+1) {
				return false
			}
		}
		return true
	case *ssa.UnOp:
		// element of a slice returned by an allowed constructor
		if ia, ok := x.X.(*ssa.IndexAddr); ok {
			return eng.fromConstructor(ia.X, allowed, depth+1)
		}
		return false
	case *ssa.ChangeType:
		return eng.fromConstructor(x.X, allowed, depth+1)
	}
	return false
}

var forwardingHeaders = map[string]bool{
	"X-Forwarded-Host": true, "X-Forwarded-Proto": true, "X-Forwarded-Uri": true, "X-Forwarded-For": true, "X-Real-Ip": true,
	"X-Proxyuser-Ip": true, "X-Envoy-External-Address": true, "Cf-Connecting-Ip": true, "X-Forwarded-Port": true, "Forwarded": true,
}

func forwardingHeader(k string) bool {
	return forwardingHeaders[canonicalHeader(k)]
}

func canonicalHeader(s string) string {
	b := []byte(s)
	upper := true
	for i, c := range b {
		if upper && c >= 'a' && c <= 'z' {
			b[i] = c - 32
		} else if !upper && c >= 'A' && c <= 'Z' {
			b[i] = c + 32
		}
		upper = c == '-'
	}
	return string(b)
}

// headerKeyRead: a read of a request/response header with a constant key: Header.Get/Values(k) or Header[k].
func headerKeyRead(in ssa.Instruction) (string, bool) {
	constStr := func(v ssa.Value) (string, bool) {
		if c, ok := v.(*ssa.Const); ok && c.Value != nil {
			if s, err := unquoteGo(c.Value.ExactString()); err == nil {
				return s, true
			}
		}
		return "", false
	}
	if ci, ok := in.(ssa.CallInstruction); ok {
		f := ci.Common().StaticCallee()
		if f != nil {
			switch fullName(f) {
			case "(net/http.Header).Get", "(net/http.Header).Values", "(net/textproto.MIMEHeader).Get":
				if len(ci.Common().Args) >= 2 {
					return constStr(ci.Common().Args[1])
				}
			}
		}
	}
	if l, ok := in.(*ssa.Lookup); ok {
		if n, ok := l.X.Type().(*types.Named); ok && n.Obj().Name() == "Header" && n.Obj().Pkg() != nil && n.Obj().Pkg().Path() == "net/http" {
			return constStr(l.Index)
		}
	}
	return "", false
}

// ---- lock discipline (C20) ----

type lockState int

const (
	lkNone lockState = iota
	lkR
	lkW
	lkMixed
)

func (eng *Engine) lockDiscipline(fns []*ssa.Function, owner, field, mutex string) (bad []string, covered int) {
	for _, fn := range fns {
		// does this function touch owner.field at all?
		var accesses []*ssa.FieldAddr
		for _, b := range fn.Blocks {
			for _, in := range b.Instrs {
				if fa, ok := in.(*ssa.FieldAddr); ok {
					o, f := fieldAddrOwner(fa)
					if o == owner && f == field {
						accesses = append(accesses, fa)
					}
				}
			}
		}
		if len(accesses) == 0 {
			continue
		}
		// forward dataflow of the lock state per base object (keyed by the SSA value of the base pointer)
		in := map[*ssa.BasicBlock]map[ssa.Value]lockState{}
		out := map[*ssa.BasicBlock]map[ssa.Value]lockState{}
		deferred := map[ssa.Value][]string{} // base -> deferred unlock kinds
		order := rpo(fn)
		get := func(m map[ssa.Value]lockState, k ssa.Value) lockState { return m[k] }
		lockCall := func(ins ssa.Instruction) (base ssa.Value, kind string, ok bool) {
			var cc *ssa.CallCommon
			switch x := ins.(type) {
			case *ssa.Call:
				cc = x.Common()
			case *ssa.Defer:
				cc = x.Common()
			default:
				return nil, "", false
			}
			f := cc.StaticCallee()
			if f == nil || len(cc.Args) == 0 {
				return nil, "", false
			}
			name := fullName(f)
			if !strings.HasPrefix(name, "(*sync.RWMutex).") && !strings.HasPrefix(name, "(*sync.Mutex).") {
				return nil, "", false
			}
			fa, ok2 := cc.Args[0].(*ssa.FieldAddr)
			if !ok2 {
				return nil, "", false
			}
			o, f2 := fieldAddrOwner(fa)
			if o != owner || f2 != mutex {
				return nil, "", false
			}
			return fa.X, f.Name(), true
		}
		apply := func(st map[ssa.Value]lockState, base ssa.Value, kind string) {
			switch kind {
			case "Lock":
				st[base] = lkW
			case "RLock":
				st[base] = lkR
			case "Unlock", "RUnlock":
				st[base] = lkNone
			}
		}
		for iter := 0; iter < 4; iter++ {
			for _, b := range order {
				st := map[ssa.Value]lockState{}
				first := true
				for _, p := range b.Preds {
					po, seen := out[p]
					if !seen {
						continue
					}
					if first {
						for k, v := range po {
							st[k] = v
						}
						first = false
						continue
					}
					for k := range st {
						if po[k] != st[k] {
							st[k] = lkMixed
						}
					}
					for k, v := range po {
						if _, ok := st[k]; !ok && v != lkNone {
							st[k] = lkMixed
						}
					}
				}
				in[b] = st
				cur := map[ssa.Value]lockState{}
				for k, v := range st {
					cur[k] = v
				}
				for _, ins := range b.Instrs {
					if base, kind, ok := lockCall(ins); ok {
						if _, isDefer := ins.(*ssa.Defer); isDefer {
							if iter == 0 {
								deferred[base] = append(deferred[base], kind)
							}
							continue
						}
						apply(cur, base, kind)
					}
					if _, ok := ins.(*ssa.RunDefers); ok {
						for base, kinds := range deferred {
							for _, k := range kinds {
								apply(cur, base, k)
							}
						}
					}
				}
				out[b] = cur
			}
		}
		// check accesses
		for _, b := range order {
			cur := map[ssa.Value]lockState{}
			for k, v := range in[b] {
				cur[k] = v
			}
			for _, ins := range b.Instrs {
				if base, kind, ok := lockCall(ins); ok {
					if _, isDefer := ins.(*ssa.Defer); !isDefer {
						apply(cur, base, kind)
					}
				}
				if _, ok := ins.(*ssa.RunDefers); ok {
					for base, kinds := range deferred {
						for _, k := range kinds {
							apply(cur, base, k)
						}
					}
				}
				fa, ok := ins.(*ssa.FieldAddr)
				if !ok {
					continue
				}
				o, f := fieldAddrOwner(fa)
				if o != owner || f != field {
					continue
				}
				// owned object (allocated here and not yet published)?
				if ownedObject(fa.X) {
					covered++
					continue
				}
				for _, r := range *fa.Referrers() {
					write := false
					switch x := r.(type) {
					case *ssa.Store:
						write = x.Addr == ssa.Value(fa)
					case *ssa.UnOp:
						// a loaded map that is then updated in place counts as a write
						if refs := x.Referrers(); refs != nil {
							for _, r2 := range *refs {
								if mu, ok := r2.(*ssa.MapUpdate); ok && mu.Map == ssa.Value(x) {
									write = true
								}
							}
						}
					case *ssa.DebugRef:
						continue
					default:
						write = true
					}
					covered++
					s := get(cur, fa.X)
					if write && s != lkW {
						bad = append(bad, eng.site(r)+fmt.Sprintf(" writes %s.%s without holding %s for writing", owner[strings.LastIndex(owner, ".")+1:], field, mutex))
					} else if !write && s != lkW && s != lkR {
						bad = append(bad, eng.site(r)+fmt.Sprintf(" reads %s.%s without holding %s", owner[strings.LastIndex(owner, ".")+1:], field, mutex))
					}
				}
			}
		}
		// lock balance: state none at every return
		for _, b := range order {
			if len(b.Instrs) == 0 {
				continue
			}
			if _, ok := b.Instrs[len(b.Instrs)-1].(*ssa.Return); ok {
				for base, s := range out[b] {
					_ = base
					if s != lkNone {
						bad = append(bad, eng.site(b.Instrs[len(b.Instrs)-1])+" returns with "+mutex+" possibly held")
					}
				}
			}
		}
	}
	return bad, covered
}

// ownedObject: allocated by this function, or just returned to it by a constructor call (not yet published).
func ownedObject(v ssa.Value) bool {
	switch x := v.(type) {
	case *ssa.Alloc:
		return true
	case *ssa.Call:
		return true
	case *ssa.Extract:
		_, ok := x.Tuple.(*ssa.Call)
		return ok
	}
	return false
}

// relNameBound: "(*T).M" for the synthetic bound-method wrapper "(*T).M$bound".
func relNameBound(f *ssa.Function) string {
	n := strings.TrimSuffix(f.Name(), "$bound")
	if len(f.FreeVars) == 1 {
		t := f.FreeVars[0].Type()
		ptr := false
		if p, ok := t.(*types.Pointer); ok {
			ptr = true
			t = p.Elem()
		}
		if nt, ok := t.(*types.Named); ok {
			if ptr {
				return "(*" + nt.Obj().Name() + ")." + n
			}
			return "(" + nt.Obj().Name() + ")." + n
		}
	}
	return n
}

// copyOfParam: a stack cell whose only stores write a whole parameter of the function into it (what go/ssa emits for a
// by-value parameter whose address or fields are taken), and which is otherwise only read.
func copyOfParam(al *ssa.Alloc) bool {
	if al.Heap || al.Referrers() == nil {
		return false
	}
	stores := 0
	for _, r := range *al.Referrers() {
		switch x := r.(type) {
		case *ssa.Store:
			if x.Addr != ssa.Value(al) {
				return false
			}
			if _, isParam := x.Val.(*ssa.Parameter); !isParam {
				return false
			}
			stores++
		case *ssa.FieldAddr:
			if x.Referrers() != nil {
				for _, rr := range *x.Referrers() {
					switch rr.(type) {
					case *ssa.UnOp, *ssa.DebugRef:
					default:
						return false
					}
				}
			}
		case *ssa.UnOp, *ssa.DebugRef:
		default:
			return false
		}
	}
	return stores == 1
}


// cellWritten: some instruction reachable from the address v (a captured variable's cell, or a field/element address inside
// it) may change the variable: a store through it, or the address itself escaping into a call, a store or a return.
func cellWritten(v ssa.Value, depth int) bool {
	if depth > 4 {
		return true
	}
	refs := v.Referrers()
	if refs == nil {
		return false
	}
	for _, r := range *refs {
		switch x := r.(type) {
		case *ssa.UnOp, *ssa.DebugRef:
		case *ssa.FieldAddr:
			if cellWritten(x, depth+1) {
				return true
			}
		case *ssa.IndexAddr:
			if cellWritten(x, depth+1) {
				return true
			}
		case *ssa.Store:
			return true // stored through, or the address stored somewhere
		case *ssa.MakeClosure:
			for i, b := range x.Bindings {
				if b == v {
					fn, ok := x.Fn.(*ssa.Function)
					if !ok || i >= len(fn.FreeVars) || cellWritten(fn.FreeVars[i], depth+1) {
						return true
					}
				}
			}
		default:
			return true
		}
	}
	return false
}
