package main

// Replay: turn a solver model of a failed obligation into an in-package Go test, inject it with `go test -overlay`
// (never writing to the repository) and run it against the real code.
//
// Supported: functions whose parameters (and receiver) are strings, integers, booleans, durations, times, []byte,
// []string and pointers to structs with such fields. Safety obligations replay as "call and recover the panic";
// postconditions replay by evaluating the clause in Go when it only uses parameters, results, fields and the
// executable spec functions below. Everything else is reported with no-failing-input-found.

import (
	"bytes"
	"context"
	"encoding/json"
	"fmt"
	"go/types"
	"os"
	"os/exec"
	"path/filepath"
	"sort"
	"strconv"
	"strings"
	"time"
	"unicode/utf8"
)

// ---- s-expression reader for (get-value) answers ----

type sx struct {
	atom string
	list []*sx
	str  bool
}

func parseSx(s string) []*sx {
	pos := 0
	var parse func() *sx
	skip := func() {
		for pos < len(s) && (s[pos] == ' ' || s[pos] == '\n' || s[pos] == '\t' || s[pos] == '\r') {
			pos++
		}
	}
	parse = func() *sx {
		skip()
		if pos >= len(s) {
			return nil
		}
		if s[pos] == '(' {
			pos++
			n := &sx{}
			for {
				skip()
				if pos >= len(s) {
					return n
				}
				if s[pos] == ')' {
					pos++
					return n
				}
				c := parse()
				if c == nil {
					return n
				}
				n.list = append(n.list, c)
			}
		}
		if s[pos] == '"' {
			pos++
			var b strings.Builder
			for pos < len(s) {
				if s[pos] == '"' {
					if pos+1 < len(s) && s[pos+1] == '"' {
						b.WriteByte('"')
						pos += 2
						continue
					}
					pos++
					break
				}
				b.WriteByte(s[pos])
				pos++
			}
			return &sx{atom: b.String(), str: true}
		}
		st := pos
		for pos < len(s) && s[pos] != ' ' && s[pos] != '\n' && s[pos] != '(' && s[pos] != ')' && s[pos] != '\t' {
			pos++
		}
		return &sx{atom: s[st:pos]}
	}
	var out []*sx
	for {
		n := parse()
		if n == nil {
			break
		}
		out = append(out, n)
	}
	return out
}

// smtStringToBytes decodes \u{..} / \uXXXX escapes of SMT-LIB string literals into bytes (code points <= 255).
func smtStringToBytes(s string) ([]byte, bool) {
	var out []byte
	for i := 0; i < len(s); {
		if s[i] == '\\' && i+1 < len(s) && s[i+1] == 'u' {
			j := i + 2
			hex := ""
			if j < len(s) && s[j] == '{' {
				k := strings.IndexByte(s[j:], '}')
				if k < 0 {
					return nil, false
				}
				hex = s[j+1 : j+k]
				j = j + k + 1
			} else if j+4 <= len(s) {
				hex = s[j : j+4]
				j += 4
			}
			v, err := strconv.ParseUint(hex, 16, 32)
			if err != nil || v > 255 {
				return nil, false
			}
			out = append(out, byte(v))
			i = j
			continue
		}
		if s[i] == '\\' && i+1 < len(s) && s[i+1] == 'x' && i+4 <= len(s) {
			v, err := strconv.ParseUint(s[i+2:i+4], 16, 8)
			if err == nil {
				out = append(out, byte(v))
				i += 4
				continue
			}
		}
		r, n := utf8.DecodeRuneInString(s[i:])
		if r > 255 {
			return nil, false
		}
		out = append(out, byte(r))
		i += n
	}
	return out, true
}

func sxInt(n *sx) (int64, bool) {
	if n == nil {
		return 0, false
	}
	if n.list != nil {
		if len(n.list) == 2 && n.list[0].atom == "-" {
			v, ok := sxInt(n.list[1])
			return -v, ok
		}
		return 0, false
	}
	v, err := strconv.ParseInt(n.atom, 10, 64)
	return v, err == nil
}

// ---- model queries ----

type modelQuery struct {
	o      *Oblig
	terms  []string
	vals   map[string]*sx
	bounds []string // small-model preferences (slice lengths, string lengths); dropped if they make the query unsat
}

func (mq *modelQuery) want(t string) {
	for _, x := range mq.terms {
		if x == t {
			return
		}
	}
	mq.terms = append(mq.terms, t)
}

func (mq *modelQuery) run(workdir string) error {
	if len(mq.bounds) > 0 {
		b := mq.bounds
		mq.bounds = nil
		if err := mq.runWith(workdir, b); err == nil {
			return nil
		}
	}
	return mq.runWith(workdir, nil)
}

func (mq *modelQuery) runWith(workdir string, bounds []string) error {
	q := mq.o.Query()
	q = strings.Replace(q, "(get-model)\n", "", 1)
	if len(bounds) > 0 {
		pre := ""
		for _, b := range bounds {
			pre += "(assert " + b + ")\n"
		}
		q = strings.Replace(q, "(check-sat)\n", pre+"(check-sat)\n", 1)
	}
	q += "(get-value (" + strings.Join(mq.terms, " ") + "))\n"
	f := filepath.Join(workdir, "replay-query.smt2")
	if err := os.WriteFile(f, []byte(q), 0o644); err != nil {
		return err
	}
	order := []string{strings.TrimSuffix(mq.o.Solver, "(relaxed)"), "z3-new", "cvc5", "z3"}
	for _, name := range order {
		for _, s := range solvers {
			if s.name != name {
				continue
			}
			out := runSolver(context.Background(), s, f, 20)
			if out.result != "sat" {
				continue
			}
			body := out.output[strings.Index(out.output, "sat")+3:]
			nodes := parseSx(body)
			if len(nodes) == 0 {
				continue
			}
			mq.vals = map[string]*sx{}
			for i, pair := range nodes[0].list {
				if len(pair.list) == 2 && i < len(mq.terms) {
					mq.vals[mq.terms[i]] = pair.list[1]
				}
			}
			if len(mq.vals) == len(mq.terms) {
				return nil
			}
		}
	}
	return fmt.Errorf("no solver returned values for the model terms")
}

// ---- Go literal construction ----

type goGen struct {
	pkg       *types.Package
	imports   map[string]string // path -> name
	mq        *modelQuery
	o         *Oblig
	inputs    map[string]string
	fail      string
	quantNote bool
	needHsum  bool
	needIte   bool
}

func (g *goGen) qual(p *types.Package) string {
	if p == g.pkg {
		return ""
	}
	if n, ok := g.imports[p.Path()]; ok {
		return n
	}
	n := p.Name()
	for _, used := range g.imports {
		if used == n {
			n = n + fmt.Sprint(len(g.imports))
		}
	}
	g.imports[p.Path()] = n
	return n
}

func (g *goGen) typeStr(t types.Type) string { return types.TypeString(t, g.qual) }

func goStr(b []byte) string { return strconv.Quote(string(b)) }

// plan: first pass registers the terms needed, second pass (after the solver ran) produces the literal.
func (g *goGen) lit(t types.Type, term string, depth int, emit bool) string {
	if isTimeTime(t) {
		if !emit {
			g.mq.want(term)
			return ""
		}
		v, ok := sxInt(g.mq.vals[term])
		if !ok {
			g.fail = "time value"
			return "time.Time{}"
		}
		g.imports["time"] = "time"
		if fmt.Sprint(v) == "-62135596800000000000" {
			return "time.Time{}"
		}
		return fmt.Sprintf("time.Unix(0, %d)", v)
	}
	switch u := t.Underlying().(type) {
	case *types.Basic:
		if !emit {
			g.mq.want(term)
			if u.Info()&types.IsString != 0 {
				g.mq.bounds = append(g.mq.bounds, fmt.Sprintf("(<= (str.len %s) 48)", term))
			}
			return ""
		}
		n := g.mq.vals[term]
		switch {
		case u.Info()&types.IsString != 0:
			if n == nil || !n.str {
				g.fail = "string value of " + term
				return `""`
			}
			b, ok := smtStringToBytes(n.atom)
			if !ok {
				g.fail = "string outside the byte range"
				return `""`
			}
			if len(b) > 1<<16 {
				g.fail = "string too long"
			}
			return g.conv(t, goStr(b))
		case u.Info()&types.IsBoolean != 0:
			if n == nil {
				return "false"
			}
			return g.conv(t, n.atom)
		case u.Info()&types.IsInteger != 0:
			v, ok := sxInt(n)
			if !ok {
				g.fail = "integer value of " + term
				return "0"
			}
			return g.conv(t, fmt.Sprint(v))
		}
		g.fail = "unsupported basic type " + t.String()
		return "0"
	case *types.Slice:
		if isByteSlice(t) {
			lenT := "(s_len " + term + ")"
			nilT := "(= (s_base " + term + ") 0)"
			content := ""
			if _, ok := g.o.heapNames["HB"]; ok {
				content = fmt.Sprintf("(str.substr (select HB_v0 (s_base %s)) (s_off %s) (s_len %s))", term, term, term)
			}
			if !emit {
				g.mq.want(lenT)
				g.mq.want(nilT)
				if content != "" {
					g.mq.want(content)
				}
				g.mq.bounds = append(g.mq.bounds, fmt.Sprintf("(<= (s_len %s) 64)", term))
				return ""
			}
			if n := g.mq.vals[nilT]; n != nil && n.atom == "true" {
				return "nil"
			}
			ln, _ := sxInt(g.mq.vals[lenT])
			if ln > 1<<16 || ln < 0 {
				g.fail = "slice length out of range"
				return "nil"
			}
			var b []byte
			if content != "" && g.mq.vals[content] != nil {
				b, _ = smtStringToBytes(g.mq.vals[content].atom)
			}
			for int64(len(b)) < ln {
				b = append(b, 'A')
			}
			return "[]byte(" + goStr(b[:ln]) + ")"
		}
		el := u.Elem()
		es := g.o.sorts.SortOf(el)
		hn := "HS_" + mangle(string(es))
		lenT := "(s_len " + term + ")"
		nilT := "(= (s_base " + term + ") 0)"
		if !emit {
			g.mq.want(lenT)
			g.mq.want(nilT)
			g.mq.bounds = append(g.mq.bounds, fmt.Sprintf("(<= (s_len %s) 4)", term))
		}
		const maxElems = 6
		var elems []string
		if _, ok := g.o.heapNames[hn]; ok {
			for i := 0; i < maxElems; i++ {
				et := fmt.Sprintf("(select (select %s_v0 (s_base %s)) (+ (s_off %s) %d))", hn, term, term, i)
				elems = append(elems, g.lit(el, et, depth+1, emit))
			}
		}
		if !emit {
			return ""
		}
		if n := g.mq.vals[nilT]; n != nil && n.atom == "true" {
			return "nil"
		}
		ln, _ := sxInt(g.mq.vals[lenT])
		if ln < 0 {
			g.fail = "slice length out of range"
			return "nil"
		}
		if ln > maxElems || (ln > 0 && len(elems) == 0) {
			// more elements than the model is asked for: pad with zero values
			if ln > 64 {
				g.fail = "slice too long"
				return "nil"
			}
		}
		var parts []string
		for i := int64(0); i < ln; i++ {
			if int(i) < len(elems) {
				parts = append(parts, elems[i])
			} else {
				parts = append(parts, g.zero(el))
			}
		}
		return g.typeStr(t) + "{" + strings.Join(parts, ", ") + "}"
	case *types.Pointer:
		st, ok := u.Elem().Underlying().(*types.Struct)
		if !ok || depth > 2 {
			if !emit {
				return ""
			}
			g.fail = "unsupported pointer type " + t.String()
			return "nil"
		}
		nilT := "(= " + term + " 0)"
		if !emit {
			g.mq.want(nilT)
		}
		var fields []string
		for i := 0; i < st.NumFields(); i++ {
			f := st.Field(i)
			if !f.Exported() && f.Pkg() != g.pkg {
				continue
			}
			hn := "H_" + mangle(typeKey(u.Elem()))
			if len(hn) > 70 {
				hn = hn[:70]
			}
			hn += "_" + mangle(f.Name())
			if _, ok := g.o.heapNames[hn]; !ok {
				continue
			}
			if !g.supported(f.Type(), depth+1) {
				continue
			}
			v := g.lit(f.Type(), fmt.Sprintf("(select %s_v0 %s)", hn, term), depth+1, emit)
			if emit {
				fields = append(fields, f.Name()+": "+v)
			}
		}
		if !emit {
			return ""
		}
		if n := g.mq.vals[nilT]; n != nil && n.atom == "true" {
			return "nil"
		}
		return "&" + g.typeStr(u.Elem()) + "{" + strings.Join(fields, ", ") + "}"
	case *types.Struct:
		if !emit {
			// struct values: fields via projections
		}
		ss := g.o.sorts.structInfo(g.o.sorts.SortOf(t))
		if ss == nil {
			g.fail = "struct sort"
			return g.typeStr(t) + "{}"
		}
		var fields []string
		for i := 0; i < u.NumFields(); i++ {
			f := u.Field(i)
			if (!f.Exported() && f.Pkg() != g.pkg) || !g.supported(f.Type(), depth+1) {
				continue
			}
			v := g.lit(f.Type(), fmt.Sprintf("(%s %s)", ss.fnames[i], term), depth+1, emit)
			if emit {
				fields = append(fields, f.Name()+": "+v)
			}
		}
		if !emit {
			return ""
		}
		return g.typeStr(t) + "{" + strings.Join(fields, ", ") + "}"
	}
	if emit {
		g.fail = "unsupported parameter type " + t.String()
	}
	return g.zero(t)
}

func (g *goGen) conv(t types.Type, lit string) string {
	if _, named := t.(*types.Named); named {
		return g.typeStr(t) + "(" + lit + ")"
	}
	if b, ok := t.(*types.Basic); ok && (b.Kind() == types.Int || b.Kind() == types.String || b.Kind() == types.Bool || b.Kind() == types.UntypedInt) {
		return lit
	}
	return g.typeStr(t) + "(" + lit + ")"
}

func (g *goGen) zero(t types.Type) string {
	switch u := t.Underlying().(type) {
	case *types.Basic:
		switch {
		case u.Info()&types.IsString != 0:
			return `""`
		case u.Info()&types.IsBoolean != 0:
			return "false"
		default:
			return "0"
		}
	case *types.Struct:
		return g.typeStr(t) + "{}"
	}
	return "nil"
}

func (g *goGen) supported(t types.Type, depth int) bool {
	if isTimeTime(t) {
		return true
	}
	switch u := t.Underlying().(type) {
	case *types.Basic:
		return u.Info()&(types.IsString|types.IsBoolean|types.IsInteger) != 0
	case *types.Slice:
		return isByteSlice(t) || g.supported(u.Elem(), depth+1)
	case *types.Pointer:
		_, ok := u.Elem().Underlying().(*types.Struct)
		return ok && depth <= 2
	case *types.Struct:
		return depth <= 2
	}
	return false
}

// ---- clause -> Go ----

type clauseGen struct {
	g     *goGen
	vars  map[string]string // spec identifier -> Go expression
	pre   []string          // statements to run before the call (old(...) snapshots)
	ok    bool
	why   string
	db    *SpecDB
	eng   *Engine
	nold  int
	inOld bool
	bound map[string]string
}

func (c *clauseGen) bad(why string) string {
	if c.ok {
		c.ok = false
		c.why = why
	}
	return "false"
}

func (c *clauseGen) expr(e *SExpr) string {
	switch e.Op {
	case "int":
		return fmt.Sprint(e.Int)
	case "str":
		return strconv.Quote(e.Str)
	case "bool":
		return fmt.Sprint(e.Bool)
	case "nil":
		return "nil"
	case "ident":
		if v, ok := c.bound[e.Name]; ok {
			return v
		}
		if v, ok := c.vars[e.Name]; ok {
			return v
		}
		if c.g.pkg != nil {
			if obj := c.g.pkg.Scope().Lookup(e.Name); obj != nil {
				return e.Name
			}
		}
		return c.bad("identifier " + e.Name)
	case "not":
		return "!(" + c.expr(e.Args[0]) + ")"
	case "neg":
		return "-(" + c.expr(e.Args[0]) + ")"
	case "and":
		return "(" + c.expr(e.Args[0]) + " && " + c.expr(e.Args[1]) + ")"
	case "or":
		return "(" + c.expr(e.Args[0]) + " || " + c.expr(e.Args[1]) + ")"
	case "imp":
		return "(!(" + c.expr(e.Args[0]) + ") || (" + c.expr(e.Args[1]) + "))"
	case "iff":
		return "((" + c.expr(e.Args[0]) + ") == (" + c.expr(e.Args[1]) + "))"
	case "==", "!=", "<", "<=", ">", ">=", "+", "-", "*", "/", "%":
		a, b := c.expr(e.Args[0]), c.expr(e.Args[1])
		if e.Op == "==" || e.Op == "!=" {
			// []byte vs nil etc. compile as is; string(bytes) comparisons come from bytes()
		}
		return "(" + a + " " + e.Op + " " + b + ")"
	case "field":
		if e.Args[0].Op == "ident" {
			if _, isVar := c.vars[e.Args[0].Name]; !isVar {
				if _, isB := c.bound[e.Args[0].Name]; !isB {
					// package-qualified object
					if p := c.g.findImport(e.Args[0].Name); p != "" {
						return p + "." + e.Name
					}
				}
			}
		}
		return c.expr(e.Args[0]) + "." + e.Name
	case "index":
		return c.expr(e.Args[0]) + "[" + c.expr(e.Args[1]) + "]"
	case "slice":
		s := c.expr(e.Args[0]) + "["
		if e.Args[1] != nil {
			s += c.expr(e.Args[1])
		}
		s += ":"
		if e.Args[2] != nil {
			s += c.expr(e.Args[2])
		}
		return s + "]"
	case "old":
		if c.inOld {
			return c.expr(e.Args[0])
		}
		c.inOld = true
		inner := c.expr(e.Args[0])
		c.inOld = false
		if len(c.bound) > 0 {
			return c.bad("old() under a quantifier")
		}
		c.nold++
		name := fmt.Sprintf("gcvOld%d", c.nold)
		c.pre = append(c.pre, name+" := "+inner)
		return name
	case "forall", "exists":
		// bounded quantifiers over integer indices: forall k int :: 0 <= k && k < N ==> body  — evaluated by a loop over [-1, 70)
		if len(e.Binders) != 1 || e.Binders[0].Type != "int" {
			return c.bad("quantifier shape")
		}
		v := "q_" + e.Binders[0].Name
		if c.bound == nil {
			c.bound = map[string]string{}
		}
		c.bound[e.Binders[0].Name] = v
		body := c.expr(e.Args[0])
		delete(c.bound, e.Binders[0].Name)
		c.g.quantNote = true
		if e.Op == "forall" {
			return "func() (r bool) { defer func() { if recover() != nil { r = true } }(); for " + v + " := -1; " + v + " < 70; " + v + "++ { if !gcvGuard(func() bool { return " + body + " }, true) { return false } }; return true }()"
		}
		return "func() bool { for " + v + " := -1; " + v + " < 70; " + v + "++ { if gcvGuard(func() bool { return " + body + " }, false) { return true } }; return false }()"
	case "call":
		return c.call(e)
	case "callref":
		return c.bad("reference to an internal call (" + e.Name + ")")
	}
	return c.bad("expression " + e.Op)
}

func (g *goGen) findImport(name string) string {
	if g.pkg != nil {
		for _, p := range g.pkg.Imports() {
			if p.Name() == name {
				return g.qual(p)
			}
		}
	}
	std := map[string]string{"strings": "strings", "base64": "encoding/base64", "http": "net/http", "sha256": "crypto/sha256", "strconv": "strconv", "errors": "errors", "time": "time", "regexp": "regexp"}
	if p, ok := std[name]; ok {
		g.imports[p] = name
		return name
	}
	return ""
}

func (c *clauseGen) call(e *SExpr) string {
	args := func() []string {
		var out []string
		for _, a := range e.Args {
			out = append(out, c.expr(a))
		}
		return out
	}
	imp := func(path, name string) string { c.g.imports[path] = name; return name }
	switch e.Name {
	case "len":
		return "len(" + c.expr(e.Args[0]) + ")"
	case "bytes", "string":
		return "string(" + c.expr(e.Args[0]) + ")"
	case "HasPrefix", "HasSuffix", "Contains", "Index":
		a := args()
		return imp("strings", "strings") + "." + e.Name + "(" + strings.Join(a, ", ") + ")"
	case "itoa":
		return imp("strconv", "strconv") + ".Itoa(int(" + c.expr(e.Args[0]) + "))"
	case "unix":
		return "(" + c.expr(e.Args[0]) + ").Unix()"
	case "ite":
		a := args()
		c.g.needIte = true
		return "gcvIte(" + a[0] + ", " + a[1] + ", " + a[2] + ")"
	case "matches":
		a := args()
		return imp("regexp", "regexp") + ".MustCompile(" + a[1] + ").MatchString(" + a[0] + ")"
	case "deref":
		return "*(" + c.expr(e.Args[0]) + ")"
	case "inmap":
		a := args()
		return "func() bool { _, ok := " + a[0] + "[" + a[1] + "]; return ok }()"
	case "b64enc":
		a := args()
		return a[0] + ".EncodeToString([]byte(" + a[1] + "))"
	case "b64dec":
		a := args()
		return "func() string { b, _ := " + a[0] + ".DecodeString(" + a[1] + "); return string(b) }()"
	case "b64decErr":
		a := args()
		return "func() error { _, err := " + a[0] + ".DecodeString(" + a[1] + "); return err }()"
	case "canon":
		return imp("net/http", "http") + ".CanonicalHeaderKey(" + c.expr(e.Args[0]) + ")"
	case "hsum":
		a := args()
		c.g.needHsum = true
		return "gcvHsum(" + a[0] + ", " + a[1] + ", " + a[2] + ")"
	case "crypto_sha256":
		c.g.imports["crypto/sha256"] = "sha256"
		return "func() string { s := sha256.Sum256([]byte(" + c.expr(e.Args[0]) + ")); return string(s[:]) }()"
	}
	if sf, ok := c.db.specFns[e.Name]; ok && sf.Body != nil && len(sf.Params) == len(e.Args) {
		// inline the definition
		save := map[string]string{}
		a := args()
		for i, p := range sf.Params {
			if old, had := c.vars[p.Name]; had {
				save[p.Name] = old
			}
			c.vars[p.Name] = "(" + a[i] + ")"
		}
		r := c.expr(sf.Body)
		for _, p := range sf.Params {
			delete(c.vars, p.Name)
			if old, had := save[p.Name]; had {
				c.vars[p.Name] = old
			}
		}
		return r
	}
	if al, ok := c.db.specAliases[e.Name]; ok && al.fc.Pkg == "" && al.idx == 0 {
		// alias of a pure library function or method
		a := args()
		name := al.fc.Name
		if strings.HasPrefix(name, "(") {
			if i := strings.LastIndex(name, ")."); i >= 0 && len(a) >= 1 {
				return "(" + a[0] + ")." + name[i+2:] + "(" + strings.Join(a[1:], ", ") + ")"
			}
		} else if i := strings.LastIndex(name, "."); i >= 0 {
			path, fnm := name[:i], name[i+1:]
			base := path
			if j := strings.LastIndex(path, "/"); j >= 0 {
				base = path[j+1:]
			}
			c.g.imports[path] = base
			return base + "." + fnm + "(" + strings.Join(a, ", ") + ")"
		}
	}
	if al, ok := c.db.specAliases[e.Name]; ok && al.fc.Pkg != "" {
		// alias of a pure repository function: call it
		a := args()
		name := al.fc.Name
		if al.fc.Pkg != c.g.pkg.Path() {
			return c.bad("alias of a function in another package")
		}
		if fn := c.eng.lookupFunc(al.fc.Pkg, al.fc.Name); al.idx == 0 && (fn == nil || fn.Signature.Results().Len() == 1) {
			return c.firstResult(name, a)
		}
		if fn := c.eng.lookupFunc(al.fc.Pkg, al.fc.Name); fn != nil && al.idx < fn.Signature.Results().Len() {
			n := fn.Signature.Results().Len()
			var lhs []string
			for i := 0; i < n; i++ {
				if i == al.idx {
					lhs = append(lhs, "r")
				} else {
					lhs = append(lhs, "_")
				}
			}
			return "func() " + c.g.typeStr(fn.Signature.Results().At(al.idx).Type()) + " { " + strings.Join(lhs, ", ") + " := " + name + "(" + strings.Join(a, ", ") + "); return r }()"
		}
		return c.bad("alias result index")
	}
	// qualified Go function usable directly (strings.Split, strconv.Atoi ...)
	if i := strings.LastIndex(e.Name, "."); i >= 0 {
		pn, fnm := e.Name[:i], e.Name[i+1:]
		if q := c.g.findImport(pn); q != "" {
			a := args()
			if pn == "strconv" && fnm == "Atoi" {
				return "func() int { v, _ := strconv.Atoi(" + a[0] + "); return v }()"
			}
			return q + "." + fnm + "(" + strings.Join(a, ", ") + ")"
		}
	}
	return c.bad("function " + e.Name)
}

func (c *clauseGen) firstResult(name string, a []string) string {
	return name + "(" + strings.Join(a, ", ") + ")"
}

// ---- driver ----

func tryReplay(eng *Engine, verif string, o *Oblig, r *ReplayRecord) {
	defer func() {
		if rec := recover(); rec != nil {
			r.Reproduced = false
			r.Observed = fmt.Sprintf("replay generation failed: %v", rec)
		}
	}()
	if o.fn == nil || (o.Result != "sat" && !o.candidate) {
		r.Observed = "no model (solver answered " + o.Result + ")"
		return
	}
	fn := o.fn
	if fn.Parent() != nil {
		r.Observed = "closure: not replayable by a direct call"
		return
	}
	var pkg *types.Package
	if fn.Pkg != nil {
		pkg = fn.Pkg.Pkg
	}
	if pkg == nil {
		return
	}
	wd, err := os.MkdirTemp("", "gcv-replay-")
	if err != nil {
		return
	}
	defer os.RemoveAll(wd)
	g := &goGen{pkg: pkg, imports: map[string]string{"testing": "testing", "fmt": "fmt"}, o: o}
	g.mq = &modelQuery{o: o}
	sig := fn.Signature
	// pass 1: collect terms
	for i, p := range fn.Params {
		if i >= len(o.paramTerms) {
			r.Observed = "parameter terms unavailable"
			return
		}
		if !g.supported(p.Type(), 0) {
			r.Observed = "parameter " + p.Name() + " of type " + p.Type().String() + " cannot be constructed from a model"
			return
		}
		g.lit(p.Type(), o.paramTerms[i].S, 0, false)
	}
	if len(g.mq.terms) == 0 {
		g.mq.want("true")
	}
	if err := g.mq.run(wd); err != nil {
		r.Observed = "model values unavailable: " + err.Error()
		return
	}
	// pass 2: literals
	var decls, argNames []string
	inputs := map[string]string{}
	hints := map[string]string{}
	if fc := eng.contractFor(fn); fc != nil {
		hints = fc.ReplayHints
	}
	for i, p := range fn.Params {
		l := g.lit(p.Type(), o.paramTerms[i].S, 0, true)
		if h, ok := hints[p.Name()]; ok {
			l = h
		} else if i == 0 && sig.Recv() != nil {
			if h, ok := hints["recv"]; ok {
				l = h
			}
		}
		name := fmt.Sprintf("gcvA%d", i)
		decls = append(decls, fmt.Sprintf("\t%s := %s", name, l))
		decls = append(decls, fmt.Sprintf("\t_ = %s", name))
		argNames = append(argNames, name)
		pn := p.Name()
		if pn == "" {
			pn = fmt.Sprintf("arg%d", i)
		}
		inputs[pn] = l
	}
	if g.fail != "" {
		r.Observed = "model value not representable: " + g.fail
		return
	}
	r.Inputs = inputs
	// call expression
	var call string
	args := argNames
	if sig.Recv() != nil {
		call = argNames[0] + "." + fn.Name() + "(" + strings.Join(argNames[1:], ", ") + ")"
	} else {
		call = fn.Name() + "(" + strings.Join(args, ", ") + ")"
	}
	if sig.Variadic() {
		call = strings.TrimSuffix(call, ")") + "...)"
	}
	var resNames []string
	for i := 0; i < sig.Results().Len(); i++ {
		resNames = append(resNames, fmt.Sprintf("gcvR%d", i))
	}
	// clause
	cg := &clauseGen{g: g, vars: map[string]string{}, ok: true, db: eng.specs, eng: eng}
	clauseGo := ""
	if o.Kind == "post" && o.clause != nil {
		for i, p := range fn.Params {
			if p.Name() != "" {
				cg.vars[p.Name()] = argNames[i]
			}
		}
		for i := 0; i < sig.Results().Len(); i++ {
			cg.vars[fmt.Sprintf("ret%d", i)] = resNames[i]
			if n := sig.Results().At(i).Name(); n != "" && n != "_" {
				cg.vars[n] = resNames[i]
			}
		}
		if sig.Results().Len() >= 1 {
			if _, taken := cg.vars["result"]; !taken {
				cg.vars["result"] = resNames[0]
			}
			last := sig.Results().At(sig.Results().Len() - 1)
			if last.Type().String() == "error" {
				if _, taken := cg.vars["err"]; !taken {
					cg.vars["err"] = resNames[len(resNames)-1]
				}
			}
		}
		clauseGo = cg.expr(o.clause)
		if !cg.ok {
			clauseGo = ""
		}
	}
	var b bytes.Buffer
	fmt.Fprintf(&b, "package %s\n\n", pkg.Name())
	var body bytes.Buffer
	fmt.Fprintf(&body, "func TestVerifReplay(t *testing.T) {\n")
	fmt.Fprintf(&body, "\tdefer func() {\n\t\tif r := recover(); r != nil {\n\t\t\tfmt.Printf(\"GCV-REPLAY: PANIC: %%v\\n\", r)\n\t\t}\n\t}()\n")
	for _, d := range decls {
		fmt.Fprintln(&body, d)
	}
	for _, p := range cg.pre {
		fmt.Fprintf(&body, "\t%s\n", p)
	}
	if len(resNames) > 0 {
		fmt.Fprintf(&body, "\t%s := %s\n", strings.Join(resNames, ", "), call)
		for _, rn := range resNames {
			fmt.Fprintf(&body, "\t_ = %s\n", rn)
		}
		fmt.Fprintf(&body, "\tfmt.Printf(\"GCV-REPLAY: RESULT: %%#v\\n\", []interface{}{%s})\n", strings.Join(resNames, ", "))
	} else {
		fmt.Fprintf(&body, "\t%s\n", call)
	}
	fmt.Fprintf(&body, "\tfmt.Println(\"GCV-REPLAY: RETURNED\")\n")
	if clauseGo != "" {
		fmt.Fprintf(&body, "\tfmt.Printf(\"GCV-REPLAY: CLAUSE: %%v\\n\", %s)\n", clauseGo)
	}
	fmt.Fprintf(&body, "}\n")
	if g.quantNote {
		fmt.Fprintf(&body, "\nfunc gcvGuard(f func() bool, dflt bool) (r bool) {\n\tdefer func() {\n\t\tif recover() != nil {\n\t\t\tr = dflt\n\t\t}\n\t}()\n\treturn f()\n}\n")
	}
	if g.needIte {
		fmt.Fprintf(&body, "\nfunc gcvIte[T any](c bool, a, b T) T {\n\tif c {\n\t\treturn a\n\t}\n\treturn b\n}\n")
	}
	if g.needHsum {
		g.imports["crypto/hmac"] = "hmac"
		g.imports["crypto/sha256"] = "sha256"
		g.imports["crypto/sha1"] = "sha1"
		g.imports["hash"] = "hash"
		fmt.Fprintf(&body, `
func gcvHsum(alg interface{}, key, msg string) string {
	switch a := alg.(type) {
	case func() hash.Hash:
		h := hmac.New(a, []byte(key))
		h.Write([]byte(msg))
		return string(h.Sum(nil))
	case int:
		if a == 1 {
			s := sha1.Sum([]byte(msg))
			return string(s[:])
		}
		s := sha256.Sum256([]byte(msg))
		return string(s[:])
	}
	return ""
}
`)
	}
	var imps []string
	bodyText := body.String()
	for p, n := range g.imports {
		if !strings.Contains(bodyText, n+".") {
			continue // registered while translating a clause that turned out not to be executable
		}
		base := p
		if i := strings.LastIndex(p, "/"); i >= 0 {
			base = p[i+1:]
		}
		if n == base {
			imps = append(imps, strconv.Quote(p))
		} else {
			imps = append(imps, n+" "+strconv.Quote(p))
		}
	}
	sort.Strings(imps)
	fmt.Fprintf(&b, "import (\n\t%s\n)\n\n", strings.Join(imps, "\n\t"))
	b.Write(body.Bytes())
	src := b.String()
	r.TestSource = src
	// overlay
	pp := eng.allPkgs[pkg.Path()]
	if pp == nil || len(pp.GoFiles) == 0 {
		return
	}
	pkgDir := filepath.Dir(pp.GoFiles[0])
	testFile := filepath.Join(wd, "zz_gcv_replay_test.go")
	os.WriteFile(testFile, []byte(src), 0o644)
	ov := map[string]map[string]string{"Replace": {filepath.Join(pkgDir, "zz_gcv_replay_test.go"): testFile}}
	ovData, _ := json.Marshal(ov)
	ovFile := filepath.Join(wd, "overlay.json")
	os.WriteFile(ovFile, ovData, 0o644)
	ctx, cancel := context.WithTimeout(context.Background(), 150*time.Second)
	defer cancel()
	cmd := exec.CommandContext(ctx, "go", "test", "-overlay", ovFile, "-vet=off", "-count=1", "-v", "-timeout", "60s", "-run", "^TestVerifReplay$", ".")
	cmd.Dir = pkgDir
	env := []string{"GOFLAGS=-mod=mod", "GOPROXY=off", "GOTOOLCHAIN=auto"}
	for _, e := range os.Environ() {
		if strings.HasPrefix(e, "GOSUMDB=") || strings.HasPrefix(e, "GOFLAGS=") || strings.HasPrefix(e, "GOTOOLCHAIN=") || strings.HasPrefix(e, "GOPROXY=") {
			continue
		}
		env = append(env, e)
	}
	cmd.Env = env
	var out bytes.Buffer
	cmd.Stdout = &out
	cmd.Stderr = &out
	cmd.Run()
	r.ReplayCmd = "go test -overlay <overlay.json> -vet=off -count=1 -timeout 60s -run '^TestVerifReplay$' . (in " + pkgDir + ")"
	text := out.String()
	var lines []string
	for _, l := range strings.Split(text, "\n") {
		if strings.HasPrefix(l, "GCV-REPLAY:") {
			lines = append(lines, strings.TrimPrefix(l, "GCV-REPLAY: "))
		}
	}
	if len(lines) == 0 {
		r.Observed = "replay test did not run: " + firstLines(text, 6)
		return
	}
	r.Observed = strings.Join(lines, "; ")
	panicked := strings.Contains(r.Observed, "PANIC:")
	switch o.Kind {
	case "safety":
		// the panic must be of the obligation's class (a model artefact may crash elsewhere, e.g. on an unset field)
		want := map[string]string{"slice": "slice bounds out of range", "index": "index out of range", "nil-deref": "nil pointer dereference",
			"nil-iface": "nil pointer dereference", "nil-func": "nil pointer dereference", "nil-arg": "nil pointer dereference", "nil-recv": "nil pointer dereference", "nil-capture": "nil pointer dereference", "type-assert": "interface conversion",
			"div-zero": "divide by zero", "nil-map-write": "assignment to entry in nil map", "makeslice": "makeslice"}
		kind := o.Label
		if i := strings.Index(kind, ":"); i >= 0 {
			kind = kind[:i]
		}
		if w, ok := want[kind]; ok {
			r.Reproduced = panicked && strings.Contains(r.Observed, w)
		} else {
			r.Reproduced = panicked
		}
	case "post":
		if panicked {
			r.Reproduced = false
			return
		}
		if clauseGo == "" {
			r.Observed += "; clause not executable: " + cg.why
			return
		}
		r.Reproduced = strings.Contains(r.Observed, "CLAUSE: false")
	}
}

func replayCmd(args []string) {
	if len(args) != 1 {
		usage()
	}
	data, err := os.ReadFile(args[0])
	if err != nil {
		fmt.Println("cannot read", args[0], err)
		os.Exit(2)
	}
	var r ReplayRecord
	json.Unmarshal(data, &r)
	fmt.Printf("property:   %s\nobligation: %s\nclause:     %s\nposition:   %s\nsolver:     %s (%s)\n", r.Property, r.Obligation, r.Clause, r.Position, r.Solver, r.Result)
	if len(r.Inputs) > 0 {
		fmt.Println("model inputs:")
		for _, k := range sortedKeys(r.Inputs) {
			fmt.Printf("  %s = %s\n", k, r.Inputs[k])
		}
	}
	if r.TestSource == "" {
		fmt.Println("no replay test was generated:", r.Observed)
		os.Exit(1)
	}
	fmt.Println("recorded observation:", r.Observed)
	fmt.Println("reproduced:", r.Reproduced)
	fmt.Println("--- replay test (inject with go test -overlay) ---")
	fmt.Println(r.TestSource)
	if r.Reproduced {
		os.Exit(1)
	}
}
