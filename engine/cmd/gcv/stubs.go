package main

func selftestCmd(args []string) { panic("todo") }
