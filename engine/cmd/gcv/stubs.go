package main

func selftestCmd(args []string) { panic("todo") }
func replayCmd(args []string)   { panic("todo") }

func tryReplay(eng *Engine, verif string, o *Oblig, r *ReplayRecord) {}
