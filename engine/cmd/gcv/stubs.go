package main

func checkCmd(args []string)    { panic("todo") }
func selftestCmd(args []string) { panic("todo") }
func replayCmd(args []string)   { panic("todo") }
