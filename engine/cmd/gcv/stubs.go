package main

func selftestCmd(args []string) { panic("todo") }
func replayCmd(args []string)   { panic("todo") }

func (eng *Engine) runScans(prop string) []*Oblig { return nil }

var sweepProps = map[string]bool{}

type sweepItem struct {
	o      *Oblig
	replay *ReplayRecord
}

type sweepResult struct {
	obls        []*Oblig
	claimed     []*Oblig
	newReplayed []sweepItem
	assumed     map[string]bool
}

func (eng *Engine) runSweep(prop, verif string, update bool) *sweepResult { return nil }
func (s *sweepResult) finish(eng *Engine, verif string, update bool)     {}
func (s *sweepResult) summary() map[string]interface{}                   { return nil }

func tryReplay(eng *Engine, verif string, o *Oblig, r *ReplayRecord) {}
