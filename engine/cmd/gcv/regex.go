package main

// Go regular expressions (regexp/syntax) -> SMT-LIB RegLan over byte strings.
//
// Matching is Go's unanchored MatchString. Anchors are handled with two marker characters outside the
// byte range: the string s is embedded as BOT·s·EOT, ^ becomes the literal BOT and $ the literal EOT.

import (
	"fmt"
	"regexp/syntax"
	"strings"
)

const (
	reBOT = "\"\\u{100}\""
	reEOT = "\"\\u{101}\""
)

func smtChar(c rune) string {
	return fmt.Sprintf("\"\\u{%x}\"", c)
}

const reAnyByte = "(re.range \"\\u{0}\" \"\\u{ff}\")"

// one non-ASCII rune as Go's decoder sees it in a byte string (valid multi-byte sequence or a single stray byte)
const reNonASCIIRune = "(re.union (re.++ (re.range \"\\u{c2}\" \"\\u{df}\") (re.range \"\\u{80}\" \"\\u{bf}\")) " +
	"(re.++ (re.range \"\\u{e0}\" \"\\u{ef}\") (re.range \"\\u{80}\" \"\\u{bf}\") (re.range \"\\u{80}\" \"\\u{bf}\")) " +
	"(re.++ (re.range \"\\u{f0}\" \"\\u{f4}\") (re.range \"\\u{80}\" \"\\u{bf}\") (re.range \"\\u{80}\" \"\\u{bf}\") (re.range \"\\u{80}\" \"\\u{bf}\")) " +
	"(re.range \"\\u{80}\" \"\\u{ff}\"))"

func reUnion(xs []string) string {
	switch len(xs) {
	case 0:
		return "re.none"
	case 1:
		return xs[0]
	}
	return "(re.union " + strings.Join(xs, " ") + ")"
}

func reConcat(xs []string) string {
	switch len(xs) {
	case 0:
		return "(str.to_re \"\")"
	case 1:
		return xs[0]
	}
	return "(re.++ " + strings.Join(xs, " ") + ")"
}

func reNode(re *syntax.Regexp) (string, error) {
	switch re.Op {
	case syntax.OpNoMatch:
		return "re.none", nil
	case syntax.OpEmptyMatch:
		return "(str.to_re \"\")", nil
	case syntax.OpLiteral:
		var parts []string
		for _, r := range re.Rune {
			if re.Flags&syntax.FoldCase != 0 {
				alts := []string{}
				for _, c := range foldSet(r) {
					s, err := runeBytes(c)
					if err != nil {
						return "", err
					}
					alts = append(alts, s)
				}
				parts = append(parts, reUnion(alts))
				continue
			}
			s, err := runeBytes(r)
			if err != nil {
				return "", err
			}
			parts = append(parts, s)
		}
		return reConcat(parts), nil
	case syntax.OpCharClass:
		var alts []string
		for i := 0; i+1 < len(re.Rune); i += 2 {
			lo, hi := re.Rune[i], re.Rune[i+1]
			if lo <= 0x7f {
				h := hi
				if h > 0x7f {
					h = 0x7f
				}
				if lo == h {
					alts = append(alts, "(str.to_re "+smtChar(lo)+")")
				} else {
					alts = append(alts, fmt.Sprintf("(re.range %s %s)", smtChar(lo), smtChar(h)))
				}
			}
			if hi > 0x7f {
				l := lo
				if l < 0x80 {
					l = 0x80
				}
				if l == 0x80 && hi >= 0x10ffff {
					alts = append(alts, reNonASCIIRune)
				} else {
					return "", fmt.Errorf("character class with a partial non-ASCII range [%x-%x] is not supported", lo, hi)
				}
			}
		}
		return reUnion(alts), nil
	case syntax.OpAnyCharNotNL:
		return "(re.union (re.range \"\\u{0}\" \"\\u{9}\") (re.range \"\\u{b}\" \"\\u{7f}\") " + reNonASCIIRune + ")", nil
	case syntax.OpAnyChar:
		return "(re.union (re.range \"\\u{0}\" \"\\u{7f}\") " + reNonASCIIRune + ")", nil
	case syntax.OpBeginText:
		return "(str.to_re " + reBOT + ")", nil
	case syntax.OpEndText:
		return "(str.to_re " + reEOT + ")", nil
	case syntax.OpBeginLine, syntax.OpEndLine, syntax.OpWordBoundary, syntax.OpNoWordBoundary:
		return "", fmt.Errorf("assertion %v is not supported", re.Op)
	case syntax.OpCapture:
		return reNode(re.Sub[0])
	case syntax.OpStar:
		s, err := reNode(re.Sub[0])
		return "(re.* " + s + ")", err
	case syntax.OpPlus:
		s, err := reNode(re.Sub[0])
		return "(re.+ " + s + ")", err
	case syntax.OpQuest:
		s, err := reNode(re.Sub[0])
		return "(re.opt " + s + ")", err
	case syntax.OpRepeat:
		s, err := reNode(re.Sub[0])
		if err != nil {
			return "", err
		}
		if re.Max < 0 {
			return fmt.Sprintf("(re.++ ((_ re.^ %d) %s) (re.* %s))", re.Min, s, s), nil
		}
		return fmt.Sprintf("((_ re.loop %d %d) %s)", re.Min, re.Max, s), nil
	case syntax.OpConcat:
		var parts []string
		for _, sub := range re.Sub {
			s, err := reNode(sub)
			if err != nil {
				return "", err
			}
			parts = append(parts, s)
		}
		return reConcat(parts), nil
	case syntax.OpAlternate:
		var parts []string
		for _, sub := range re.Sub {
			s, err := reNode(sub)
			if err != nil {
				return "", err
			}
			parts = append(parts, s)
		}
		return reUnion(parts), nil
	}
	return "", fmt.Errorf("unsupported regexp op %v", re.Op)
}

func foldSet(r rune) []rune {
	out := []rune{r}
	if r >= 'a' && r <= 'z' {
		out = append(out, r-32)
	} else if r >= 'A' && r <= 'Z' {
		out = append(out, r+32)
	}
	return out
}

func runeBytes(r rune) (string, error) {
	if r <= 0x7f {
		return "(str.to_re " + smtChar(r) + ")", nil
	}
	bs := []byte(string(r))
	var b strings.Builder
	b.WriteString("(str.to_re \"")
	for _, c := range bs {
		b.WriteString(fmt.Sprintf("\\u{%x}", c))
	}
	b.WriteString("\")")
	return b.String(), nil
}

// regexLang: the language R' (markers for anchors) of a Go pattern.
func regexLang(pattern string) (string, error) {
	re, err := syntax.Parse(pattern, syntax.Perl)
	if err != nil {
		return "", err
	}
	return reNode(re.Simplify())
}

// regexToSMT returns a RegLan L such that  MatchString(pattern, s)  <=>  (str.in_re s' L)
// is NOT directly over s; use regexMatchTerm instead. Kept for spec `matches`: returns language over s
// when the pattern has no anchors, or the anchored rewriting when anchors are only at the ends.
func regexToSMT(pattern string) (string, error) {
	l, err := regexLang(pattern)
	if err != nil {
		return "", err
	}
	if strings.Contains(l, "\\u{100}") || strings.Contains(l, "\\u{101}") {
		return "", fmt.Errorf("anchored pattern: use regexMatchTerm")
	}
	return fmt.Sprintf("(re.++ (re.* %s) %s (re.* %s))", reAnyByte, l, reAnyByte), nil
}

// regexMatchTerm: SMT Bool term equivalent to regexp.MustCompile(pattern).MatchString(s) for byte string s.
func regexMatchTerm(pattern, s string) (string, error) {
	l, err := regexLang(pattern)
	if err != nil {
		return "", err
	}
	full := fmt.Sprintf("(re.++ (re.opt (str.to_re %s)) (re.* %s) %s (re.* %s) (re.opt (str.to_re %s)))", reBOT, reAnyByte, l, reAnyByte, reEOT)
	return fmt.Sprintf("(str.in_re (str.++ %s %s %s) %s)", reBOT, s, reEOT, full), nil
}
