package main

import (
	"flag"
	"fmt"
	"os"
	"path/filepath"
	"sort"
	"strings"
	"time"
)

func usage() {
	fmt.Fprintln(os.Stderr, `usage:
  gcv dev   [-repo DIR] [-verif DIR] [-dump] [-safety] PKGPATTERN FUNC...   verify functions (development)
  gcv check [-thorough] PROP                                                  check one property
  gcv selftest [PROP...]                                                      run the must-fail corpus
  gcv replay FILE                                                             replay a recorded violation`)
	os.Exit(2)
}

func main() {
	if len(os.Args) < 2 {
		usage()
	}
	switch os.Args[1] {
	case "dev":
		devCmd(os.Args[2:])
	case "check":
		checkCmd(os.Args[2:])
	case "selftest":
		selftestCmd(os.Args[2:])
	case "replay":
		replayCmd(os.Args[2:])
	default:
		usage()
	}
}

func workDir() string {
	d, err := os.MkdirTemp("", "gcv-work-")
	if err != nil {
		panic(err)
	}
	return d
}

func devCmd(args []string) {
	fs := flag.NewFlagSet("dev", flag.ExitOnError)
	repo := fs.String("repo", "/repo", "repository")
	verif := fs.String("verif", "/verif", "verification directory")
	dump := fs.Bool("dump", false, "dump SMT of failing obligations")
	dumpAll := fs.String("dumpq", "", "write the query of the obligation whose id contains this string to stdout")
	safety := fs.Bool("safety", false, "generate safety obligations (sweep mode)")
	timeout := fs.Int("t", 10, "solver timeout (s)")
	fs.Parse(args)
	if fs.NArg() < 2 {
		usage()
	}
	t0 := time.Now()
	eng, err := loadEngine(*repo, *verif, []string{fs.Arg(0)})
	if err != nil {
		fmt.Fprintln(os.Stderr, "load:", err)
		os.Exit(2)
	}
	fmt.Printf("loaded in %.1fs\n", time.Since(t0).Seconds())
	eng.sweepMode = *safety
	eng.sweepProps = []string{"C19"}
	wd := workDir()
	defer os.RemoveAll(wd)
	for _, name := range fs.Args()[1:] {
		var keys []string
		for k := range eng.funcs {
			if strings.HasSuffix(k, "::"+name) {
				keys = append(keys, k)
			}
		}
		sort.Strings(keys)
		if len(keys) == 0 {
			fmt.Println("no function", name)
			continue
		}
		for _, k := range keys {
			fn := eng.funcs[k]
			fc := eng.contractFor(fn)
			res := eng.encodeFunction(fn, fc, eng.ifaceClausesFor(fn))
			all := append([]*Oblig{res.Canary}, res.Obls...)
			if err := solveAll(all, wd, *timeout, false, 8); err != nil {
				fmt.Println("ENGINE ERROR:", err)
			}
			fmt.Printf("== %s: %d obligations, %d heaps, %d body lines\n", res.Fn, len(res.Obls), res.HeapCount, res.BodyLines)
			for _, n := range res.Notes {
				fmt.Println("   note:", n)
			}
			for _, a := range res.Assumed {
				fmt.Println("   assumes:", a)
			}
			for _, a := range res.Inlined {
				fmt.Println("   inlined:", a)
			}
			for _, o := range all {
				status := o.Result
				if o.Kind == "canary" {
					if o.Result == "sat" {
						status = "ok(sat)"
					} else {
						status = "VACUOUS(" + o.Result + ")"
					}
				}
				fmt.Printf("   %-10s %-8s %.2fs %s\n", status, o.Solver, o.Time, o.ID)
				if o.Err != "" {
					fmt.Println("        error:", o.Err)
				}
				if *dumpAll != "" && strings.Contains(o.ID, *dumpAll) {
					f := filepath.Join(os.TempDir(), "gcv-dump.smt2")
					rel := o.relaxed
					o.relaxed = false
					os.WriteFile(f, []byte(o.Query()), 0o644) // the full query, also when the answer came from the relaxed one
					o.relaxed = rel
					fmt.Println("        query written to", f)
				}
				if o.Kind != "canary" && o.Result != "unsat" && *dump {
					fmt.Println("        reach:", o.Reach)
					fmt.Println("        formula:", o.Formula)
					if o.Result == "sat" {
						fmt.Println(indent(modelSummary(o.Model), "        "))
					} else {
						fmt.Println("        ", o.Model)
					}
				}
			}
		}
	}
}

func indent(s, p string) string {
	return p + strings.ReplaceAll(s, "\n", "\n"+p)
}

// modelSummary extracts the values of parameters (p_*, fv_*) and a few named values from a solver model.
func modelSummary(model string) string {
	var out []string
	lines := strings.Split(model, "\n")
	for i := 0; i < len(lines); i++ {
		l := strings.TrimSpace(lines[i])
		if strings.HasPrefix(l, "(define-fun p_") || strings.HasPrefix(l, "(define-fun fv_") || strings.HasPrefix(l, "(define-fun now_") {
			s := l
			if !balanced(s) && i+1 < len(lines) {
				s += " " + strings.TrimSpace(lines[i+1])
			}
			out = append(out, s)
		}
	}
	if len(out) > 40 {
		out = out[:40]
	}
	return strings.Join(out, "\n")
}
