package main

// gcv check PROP: generate and discharge every obligation that serves a property; evidence; violations.

import (
	"encoding/json"
	"flag"
	"fmt"
	"os"
	"os/exec"
	"path/filepath"
	"regexp"
	"sort"
	"strconv"
	"strings"
	"time"

	"go/types"

	"golang.org/x/tools/go/ssa"
)

type KnownFinding struct {
	Property   string `json:"property"`
	Obligation string `json:"obligation"` // obligation id prefix (clause level)
	What       string `json:"what"`
	Status     string `json:"status"` // open | fixed
	Commit     string `json:"commit,omitempty"`
	Input      string `json:"failing_input,omitempty"`
}

type Evidence struct {
	PropertyID  string                 `json:"property_id"`
	Tier        string                 `json:"tier"`
	Seed        int                    `json:"seed"`
	Level       string                 `json:"level"`
	Coverage    map[string]interface{} `json:"coverage"`
	Assumptions []string               `json:"assumptions"`
	WallS       float64                `json:"wall_s"`
	Violations  int                    `json:"violations"`
}

var propRe = regexp.MustCompile(`^//@\s*prop\s+(.*)$`)

// packagesForProp scans contract files for the packages that carry clauses of a property.
var scanRe = regexp.MustCompile(`^//@\s*scan\b`)

func packagesForProp(repo, verif, prop string) ([]string, bool) {
	set := map[string]bool{}
	needAll := false
	scan := func(root, base string) {
		filepath.Walk(root, func(path string, info os.FileInfo, err error) error {
			if err != nil || info.IsDir() {
				if err == nil && info.IsDir() && (info.Name() == ".git" || info.Name() == "node_modules") {
					return filepath.SkipDir
				}
				return nil
			}
			if info.Name() != "zz_contracts_verif.go" {
				return nil
			}
			data, _ := os.ReadFile(path)
			cur := false
			for _, l := range strings.Split(string(data), "\n") {
				t := strings.TrimSpace(l)
				if m := propRe.FindStringSubmatch(t); m != nil {
					cur = contains(strings.Fields(m[1]), prop)
					if cur {
						rel, _ := filepath.Rel(base, filepath.Dir(path))
						set["./"+rel] = true
					}
				} else if strings.HasPrefix(t, "//@ func ") || strings.HasPrefix(t, "//@ iface ") {
					cur = false
				} else if cur && scanRe.MatchString(t) {
					needAll = true // structural scans look at the whole repository
				}
			}
			return nil
		})
	}
	scan(repo, repo)
	scan(filepath.Join(verif, "contracts", "repo"), filepath.Join(verif, "contracts", "repo"))
	var out []string
	for k := range set {
		if k == "./." {
			k = "."
		}
		out = append(out, k)
	}
	sort.Strings(out)
	return out, needAll
}

func clauseHasProp(c *Clause, prop string) bool { return contains(c.Props, prop) }

func contractHasProp(fc *FuncContract, prop string) bool {
	if contains(fc.Props, prop) {
		return true
	}
	return false
}

type checkRun struct {
	prop     string
	thorough bool
	eng      *Engine
	results  []*FuncResult
	obls     []*Oblig
	canaries []*Oblig
	scanObls []*Oblig
	notes    []string
}

func checkCmd(args []string) {
	fs := flag.NewFlagSet("check", flag.ExitOnError)
	repo := fs.String("repo", "/repo", "repository")
	verif := fs.String("verif", "/verif", "verification directory")
	thorough := fs.Bool("thorough", false, "thorough tier")
	verbose := fs.Bool("v", false, "list every obligation")
	noEvidence := fs.Bool("no-evidence", false, "do not write the evidence file (used by selftest)")
	updateLedger := fs.Bool("update-ledger", false, "rewrite the sweep ledger for this property")
	fs.Parse(args)
	if fs.NArg() != 1 {
		usage()
	}
	prop := fs.Arg(0)
	code := runCheck(*repo, *verif, prop, *thorough, *verbose, !*noEvidence, *updateLedger)
	os.Exit(code)
}

func loadKnown(verif string) []KnownFinding {
	var kf []KnownFinding
	data, err := os.ReadFile(filepath.Join(verif, "known_findings.json"))
	if err == nil {
		json.Unmarshal(data, &kf)
	}
	return kf
}

func runCheck(repo, verif, prop string, thorough, verbose, writeEvidence, updateLedger bool) int {
	t0 := time.Now()
	seed, _ := strconv.Atoi(os.Getenv("VERIF_SEED"))
	tier := "quick"
	if thorough {
		tier = "thorough"
	}
	pats, needAll := packagesForProp(repo, verif, prop)
	if len(pats) == 0 {
		fmt.Printf("ENGINE-ERROR: no contract file mentions property %s\n", prop)
		return 2
	}
	if sweepProps[prop] || needAll {
		pats = []string{"./..."}
	}
	eng, err := loadEngine(repo, verif, pats)
	if err != nil {
		// a tree that does not load is not a property violation
		fmt.Printf("ENGINE-ERROR: cannot load %s: %v\n", repo, err)
		return 2
	}
	loadS := time.Since(t0).Seconds()
	run := &checkRun{prop: prop, thorough: thorough, eng: eng}
	// functions under contract for this property
	type target struct {
		fn           *ssa.Function
		fc           *FuncContract
		extra        []*Clause
		closure      bool // pulled in because a target applies this function's contract (all its obligations count)
		closureExtra bool // already a target; interface clauses used by another target were added
		pkgAdded     bool // pulled in by the package rule: its functional obligations count, its safety obligations stay with C19
	}
	var targets []target
	var missing []string
	for _, key := range sortedKeys(eng.specs.funcs) {
		fc := eng.specs.funcs[key]
		if fc.Assumed || fc.Pkg == "" || !contractHasProp(fc, prop) || strings.HasPrefix(fc.Name, "funcval ") {
			continue
		}
		fn := eng.lookupFunc(fc.Pkg, fc.Name)
		if fn == nil {
			missing = append(missing, fc.Pkg+"::"+fc.Name)
			continue
		}
		if fc.Trusted {
			continue
		}
		targets = append(targets, target{fn: fn, fc: fc})
	}
	// Property tags are written by hand; what a property depends on is not always a callee of something tagged (a function
	// value, shared browser state, a configuration object). Every contract of a package that holds a tagged contract is
	// therefore part of the property's check as well.
	if os.Getenv("GCV_NO_PKG_CLOSURE") == "" && !sweepProps[prop] {
		pk := map[string]bool{}
		have := map[*ssa.Function]bool{}
		for _, t := range targets {
			pk[fnPkgPath(t.fn)] = true
			have[t.fn] = true
		}
		for _, key := range sortedKeys(eng.specs.funcs) {
			fc := eng.specs.funcs[key]
			if fc.Assumed || fc.Trusted || fc.Pkg == "" || !pk[fc.Pkg] || strings.HasPrefix(fc.Name, "funcval ") {
				continue
			}
			fn := eng.lookupFunc(fc.Pkg, fc.Name)
			if fn == nil {
				if !contains(missing, fc.Pkg+"::"+fc.Name) {
					missing = append(missing, fc.Pkg+"::"+fc.Name)
				}
				continue
			}
			if !have[fn] {
				have[fn] = true
				targets = append(targets, target{fn: fn, fc: fc, closure: true, pkgAdded: true})
			}
		}
	}
	// implementations of interface contracts
	seenT := map[*ssa.Function]bool{}
	for _, t := range targets {
		seenT[t.fn] = true
	}
	for _, key := range sortedKeys(eng.funcs) {
		fn := eng.funcs[key]
		cl := eng.ifaceClausesFor(fn)
		var mine []*Clause
		for _, c := range cl {
			if clauseHasProp(c, prop) {
				mine = append(mine, c)
			}
		}
		if len(mine) == 0 {
			continue
		}
		if seenT[fn] {
			for i := range targets {
				if targets[i].fn == fn {
					targets[i].extra = mine
				}
			}
			continue
		}
		fc := eng.contractFor(fn)
		if fc != nil && fc.Trusted {
			continue
		}
		targets = append(targets, target{fn: fn, fc: fc, extra: mine})
	}
	// implementations of read-only interface methods inherit the frame obligation
	for _, key := range sortedKeys(eng.funcs) {
		fn := eng.funcs[key]
		if fn.Synthetic != "" {
			continue
		}
		nomod, props := eng.ifaceNoModFor(fn)
		if !nomod || !contains(props, prop) {
			continue
		}
		found := false
		for i := range targets {
			if targets[i].fn == fn {
				found = true
				if targets[i].fc == nil || !(targets[i].fc.NoMod || targets[i].fc.Pure) {
					var cp FuncContract
					if targets[i].fc != nil {
						cp = *targets[i].fc
					} else {
						cp = FuncContract{Pkg: fnPkgPath(fn), Name: relName(fn), LoopInv: map[int][]*Clause{}, Nilable: map[string]bool{}}
					}
					cp.NoMod = true
					cp.Props = unionProps(cp.Props, []string{prop})
					targets[i].fc = &cp
				}
			}
		}
		if !found {
			fc := eng.contractFor(fn)
			if fc != nil && (fc.Trusted || fc.NoMod || fc.Pure) {
				continue
			}
			cp := FuncContract{Pkg: fnPkgPath(fn), Name: relName(fn), LoopInv: map[int][]*Clause{}, Nilable: map[string]bool{}, NoMod: true, Props: []string{prop}}
			if fc != nil {
				cp = *fc
				cp.NoMod = true
				cp.Props = unionProps(cp.Props, []string{prop})
			}
			targets = append(targets, target{fn: fn, fc: &cp})
		}
	}
	// Dependency closure: a caller is verified against the contracts of its callees, so the property's argument is only
	// complete when those callee contracts (and the implementations of interface contracts used at invoke sites) are
	// themselves discharged. Every contract applied while encoding a target is therefore verified in this check too,
	// transitively, whatever properties its own clauses name.
	inTargets := map[*ssa.Function]int{}
	for i, t := range targets {
		inTargets[t.fn] = i
	}
	doneIface := map[string]bool{}
	for i := 0; i < len(targets); i++ {
		t := targets[i]
		res := eng.encodeFunction(t.fn, t.fc, t.extra)
		res.Closure = t.closure
		run.results = append(run.results, res)
		run.canaries = append(run.canaries, res.Canary)
		for _, o := range res.Obls {
			if t.pkgAdded && o.Kind == "safety" && !contains(o.Props, prop) {
				continue
			}
			if t.closure || contains(o.Props, prop) {
				run.obls = append(run.obls, o)
			} else if t.closureExtra && strings.HasPrefix(o.Label, "iface:") {
				run.obls = append(run.obls, o)
			}
		}
		if sweepProps[prop] {
			continue // the sweep property claims safety obligations only; functional contracts belong to the other checks
		}
		for _, uf := range res.UsedFns {
			if _, ok := inTargets[uf]; ok || !eng.inRepo(uf) || len(uf.Blocks) == 0 {
				continue
			}
			fc := eng.contractFor(uf)
			if fc == nil || fc.Trusted || fc.Assumed || fc.Pkg == "" {
				continue
			}
			inTargets[uf] = len(targets)
			targets = append(targets, target{fn: uf, fc: fc, extra: eng.ifaceClausesFor(uf), closure: true})
		}
		// Function values and interface calls without an interface contract: a property that depends on a function through a
		// closure made here (Manager.Save's store callback) or through an interface method that carries no contract of its own
		// (persistence.Store.Save) is protected by that function's contract only if it is verified in this check. Closures made
		// by a target and the /repo implementations (under contract) of every interface method a target invokes join the closure.
		for _, rf := range eng.relatedByValue(t.fn) {
			if _, ok := inTargets[rf]; ok || !eng.inRepo(rf) || len(rf.Blocks) == 0 {
				continue
			}
			fc := eng.contractFor(rf)
			if fc == nil || fc.Trusted || fc.Assumed || fc.Pkg == "" {
				continue
			}
			inTargets[rf] = len(targets)
			targets = append(targets, target{fn: rf, fc: fc, extra: eng.ifaceClausesFor(rf), closure: true})
		}
		for _, ik := range res.UsedIfaces {
			if doneIface[ik] {
				continue
			}
			doneIface[ik] = true
			ifc := eng.specs.ifaces[ik]
			if ifc == nil || ifc.Assumed {
				continue
			}
			parts := strings.Split(ik, ".")
			if len(parts) < 2 {
				continue
			}
			tag := "iface:" + parts[len(parts)-2] + "." + parts[len(parts)-1] + ":"
			for _, key := range sortedKeys(eng.funcs) {
				fn := eng.funcs[key]
				if fn.Name() != parts[len(parts)-1] || fn.Synthetic != "" {
					continue
				}
				var mine []*Clause
				for _, c := range eng.ifaceClausesFor(fn) {
					if strings.HasPrefix(c.Label, tag) {
						mine = append(mine, c)
					}
				}
				if len(mine) == 0 {
					continue
				}
				if j, ok := inTargets[fn]; ok {
					if j > i {
						// not yet encoded: make sure these clauses are part of it
						have := map[string]bool{}
						for _, c := range targets[j].extra {
							have[c.Label] = true
						}
						for _, c := range mine {
							if !have[c.Label] {
								targets[j].extra = append(targets[j].extra, c)
							}
						}
						targets[j].closureExtra = true
					}
					continue
				}
				fc := eng.contractFor(fn)
				if fc != nil && (fc.Trusted || fc.Assumed) {
					continue
				}
				inTargets[fn] = len(targets)
				targets = append(targets, target{fn: fn, fc: fc, extra: mine, closure: true})
			}
		}
	}
	// lemmas (closed formulas)
	for _, l := range eng.specs.lemmas {
		if clauseHasProp(l, prop) {
			var uses []string
			if i := strings.Index(l.Label, ";"); i >= 0 {
				f := strings.Fields(l.Label[i+1:])
				if len(f) > 0 && f[0] == "uses" {
					uses = f[1:]
				}
				cp := *l
				cp.Label = strings.TrimSpace(l.Label[:i])
				l = &cp
			}
			run.obls = append(run.obls, eng.encodeLemma(l, uses))
		}
	}
	// structural scans
	run.scanObls = eng.runScans(prop)
	// sweep (zero-annotation safety obligations over the request cone)
	var sweep *sweepResult
	if sweepProps[prop] {
		sweep = eng.runSweep(prop, verif, updateLedger)
	}
	// solve
	wd := workDir()
	defer os.RemoveAll(wd)
	timeout := 10
	if thorough {
		timeout = 60
	}
	all := append(append([]*Oblig{}, run.canaries...), run.obls...)
	if sweep != nil {
		for _, o := range sweep.obls {
			// only what is claimed deserves a second, longer attempt
			o.noRetry = !(sweep.ledger[o.ID] || sweep.contracted[o])
		}
		all = append(all, sweep.obls...)
	}
	tSolve := time.Now()
	if err := solveAll(all, wd, timeout, thorough, 12); err != nil {
		fmt.Printf("ENGINE-ERROR: %v\n", err)
		return 2
	}
	// A canary that is still undecided after the retry pass gets a last attempt on its own with a large budget: it is a
	// satisfiable query whose only difficulty is its size, and a loaded machine must not turn it into an engine error.
	for _, c := range run.canaries {
		if c.Result != "sat" && c.Result != "unsat" && c.Err == "" {
			c.relaxed, c.candidate, c.Time, c.Model, c.Result = false, false, 0, "", ""
			if err := solve(c, wd, timeout*30, false); err != nil {
				fmt.Printf("ENGINE-ERROR: %v\n", err)
				return 2
			}
		}
	}
	if os.Getenv("GCV_DEBUG_TIME") != "" {
		fmt.Fprintf(os.Stderr, "time: encode %.1fs solve %.1fs\n", tSolve.Sub(t0).Seconds(), time.Since(tSolve).Seconds())
	}
	tFin := time.Now()
	defer func() {
		if os.Getenv("GCV_DEBUG_TIME") != "" {
			fmt.Fprintf(os.Stderr, "time: after-solve %.1fs\n", time.Since(tFin).Seconds())
		}
	}()
	if sweep != nil {
		sweep.finish(eng, verif, updateLedger)
	}
	// results
	known := loadKnown(verif)
	violations := 0
	var lines []string
	discharged := 0
	perSolver := map[string]int{}
	solverSecs := 0.0
	var samples []map[string]interface{}
	var failed []*Oblig
	knownHit := map[int]bool{}
	claimed := append(append([]*Oblig{}, run.obls...), run.scanObls...)
	if sweep != nil {
		claimed = append(claimed, sweep.claimed...)
	}
	for _, m := range missing {
		o := &Oblig{ID: prop + ":" + m + ":contract:target-missing", Kind: "contract", Result: "unresolved",
			Err: "contract target " + m + " does not exist in the tree any more", Props: []string{prop}}
		claimed = append(claimed, o)
	}
	for _, c := range run.canaries {
		if c.Result != "sat" {
			fmt.Printf("ENGINE-ERROR: vacuity canary %s answered %s (assumptions of that function may be contradictory)\n", c.ID, c.Result)
			return 2
		}
	}
	// Vacuity guard (every tier): an obligation discharged at a program point that the encoding itself makes unreachable
	// proves nothing. Every distinct point of a discharged contract obligation gets a reachability query; a point that is
	// unreachable now and was not on the pinned tree (ledger/vacuous_<prop>.json) turns its obligations into failures.
	vacBase := map[string]bool{}
	vacPath := filepath.Join(verif, "ledger", "vacuous_"+prop+".json")
	// (whether a point is dead does not depend on the property being checked: the baselines of all properties count)
	if files, err := filepath.Glob(filepath.Join(verif, "ledger", "vacuous_*.json")); err == nil {
		for _, f := range files {
			if data, err := os.ReadFile(f); err == nil {
				var ids []string
				json.Unmarshal(data, &ids)
				for _, id := range ids {
					vacBase[stripProp(id)] = true
				}
			}
		}
	}
	var vacNow, vacNew []string
	{
		type pt struct {
			prel  *Prelude
			reach string
			nline int
		}
		points := map[pt]*Oblig{}
		pointsAx := map[pt]*Oblig{}
		var queries []*Oblig
		guarded := append([]*Oblig{}, run.obls...)
		if sweep != nil {
			guarded = append(guarded, sweep.claimed...)
		}
		for _, o := range guarded {
			if o.prel == nil || o.Reach == "true" || o.Reach == "" || o.Result != "unsat" || o.Solver == "trivial" || o.Kind == "lemma" || o.Kind == "fresh" {
				continue
			}
			k := pt{o.prel, o.Reach, o.nline}
			if points[k] == nil {
				q := &Oblig{ID: "reach:" + o.ID, Kind: "canary", Reach: o.Reach, Formula: "false", prel: o.prel, nline: o.nline, noRetry: true}
				points[k] = q
				queries = append(queries, q)
				// the same question with the quantified modelling facts kept: the solvers rarely answer sat here, but an
				// unsat answer is a contradiction that only the quantified facts produce, and it comes as quickly as the
				// vacuous discharge it explains
				qa := &Oblig{ID: "reachax:" + o.ID, Kind: "reach", Reach: o.Reach, Formula: "false", prel: o.prel, nline: o.nline, noRetry: true}
				pointsAx[k] = qa
			}
		}
		solveAll(queries, wd, timeout, false, 12)
		// budget of the second question: a vacuous discharge and the contradiction behind it cost about the same, so
		// points whose obligations all discharged within half a second get one second, the others three
		slow := map[pt]bool{}
		for _, o := range guarded {
			if o.prel != nil && o.Time >= 0.5 {
				slow[pt{o.prel, o.Reach, o.nline}] = true
			}
		}
		var axFast, axSlow []*Oblig
		for k, qa := range pointsAx {
			if slow[k] {
				axSlow = append(axSlow, qa)
			} else {
				axFast = append(axFast, qa)
			}
		}
		sort.Slice(axFast, func(i, j int) bool { return axFast[i].ID < axFast[j].ID })
		sort.Slice(axSlow, func(i, j int) bool { return axSlow[i].ID < axSlow[j].ID })
		tg0 := time.Now()
		solveAll(axFast, wd, 1, false, 14)
		tg1 := time.Now()
		solveAll(axSlow, wd, 3, false, 12)
		if os.Getenv("GCV_DEBUG_TIME") != "" {
			res := map[string]int{}
			for _, q := range append(append([]*Oblig{}, axFast...), axSlow...) {
				res[q.Result]++
			}
			fmt.Fprintf(os.Stderr, "time: vacuity guard: %d points; with quantified facts: %d fast %.1fs, %d slow %.1fs, answers %v\n", len(queries), len(axFast), tg1.Sub(tg0).Seconds(), len(axSlow), time.Since(tg1).Seconds(), res)
		}
		for _, o := range guarded {
			if o.prel == nil || o.Result != "unsat" {
				continue
			}
			k := pt{o.prel, o.Reach, o.nline}
			if q, qa := points[k], pointsAx[k]; (q != nil && q.Result == "unsat") || (qa != nil && qa.Result == "unsat") {
				vacNow = append(vacNow, o.ID)
				if !vacBase[stripProp(o.ID)] && !updateLedger {
					vacNew = append(vacNew, o.ID)
					o.Result = "vacuous"
					o.Model = "the program point of this obligation is unreachable under the assumptions in force there (contradictory contract assumptions, or code that became dead): the obligation holds vacuously and cannot be claimed"
				}
			}
		}
		sort.Strings(vacNow)
		if updateLedger {
			os.MkdirAll(filepath.Join(verif, "ledger"), 0o755)
			data, _ := json.MarshalIndent(vacNow, "", " ")
			if len(vacNow) == 0 {
				data = []byte("[]")
			}
			os.WriteFile(vacPath, append(data, '\n'), 0o644)
		}
	}
	nKnown := 0
	for _, o := range claimed {
		solverSecs += o.Time
		if o.Result == "unsat" {
			discharged++
			perSolver[o.Solver]++
			if len(samples) < 6 {
				samples = append(samples, map[string]interface{}{"obligation": o.ID, "kind": o.Kind, "clause": o.Src, "solver": o.Solver, "seconds": round3(o.Time), "result": "discharged"})
			}
			continue
		}
		// known finding?
		isKnown := false
		for i, k := range known {
			if k.Property == prop && k.Status == "open" && strings.HasPrefix(stripProp(o.ID), stripProp(k.Obligation)) {
				isKnown = true
				if !knownHit[i] {
					knownHit[i] = true
					lines = append(lines, fmt.Sprintf("KNOWN-FINDING: property=%s %s (%s)", prop, k.What, k.Obligation))
				}
			}
		}
		if isKnown {
			nKnown++
			continue
		}
		failed = append(failed, o)
	}
	os.MkdirAll(filepath.Join(verif, "replays"), 0o755)
	for _, o := range failed {
		violations++
		rp := writeReplay(eng, verif, prop, o)
		suffix := ""
		if !rp.Reproduced {
			suffix = " no-failing-input-found"
		}
		lines = append(lines, fmt.Sprintf("VIOLATION property=%s replay=%s%s", prop, rp.Path, suffix))
		lines = append(lines, fmt.Sprintf("  failed obligation: %s [%s] %s", o.ID, o.Result, o.Src))
		if o.Err != "" {
			lines = append(lines, "  reason: "+o.Err)
		}
	}
	if sweep != nil {
		for _, o := range sweep.newReplayed {
			violations++
			rp := o.replay
			lines = append(lines, fmt.Sprintf("VIOLATION property=%s replay=%s", prop, rp.Path))
			lines = append(lines, fmt.Sprintf("  failed obligation (new, reproduced on the real code): %s", o.o.ID))
		}
	}
	// bounded stand-ins (labelled bounded; never added to discharged). A mismatch is a failing input on the real code.
	standins := runStandins(eng, repo, verif, prop, thorough)
	for _, sres := range standins {
		if failed, _ := sres["failed"].(bool); failed {
			violations++
			rp := filepath.Join(verif, "replays", fmt.Sprintf("%s-bounded-%08x.json", prop, hashStr(fmt.Sprint(sres["test"]))))
			data, _ := json.MarshalIndent(map[string]interface{}{"property": prop, "obligation": "bounded:" + fmt.Sprint(sres["test"]), "kind": "bounded stand-in",
				"reproduced": true, "failing_case": sres["first_mismatch"], "output": sres["output"], "replay_cmd": sres["cmd"]}, "", " ")
			os.WriteFile(rp, append(data, '\n'), 0o644)
			lines = append(lines, fmt.Sprintf("VIOLATION property=%s replay=%s", prop, rp))
			lines = append(lines, fmt.Sprintf("  bounded stand-in %v found a failing case on the real code: %v", sres["test"], sres["first_mismatch"]))
		}
	}
	// thorough tier extras: reachability of every obligation point, assumption audit
	var unreachable []string
	var audit map[string]interface{}
	if thorough {
		var reach []*Oblig
		for _, o := range run.obls {
			if o.prel == nil || o.Reach == "true" || o.Reach == "" || o.Result != "unsat" || o.Solver == "trivial" {
				continue
			}
			reach = append(reach, &Oblig{ID: "reach:" + o.ID, Kind: "canary", Reach: o.Reach, Formula: "false", prel: o.prel})
		}
		solveAll(reach, wd, 10, false, 12)
		for _, rch := range reach {
			if rch.Result == "unsat" {
				unreachable = append(unreachable, strings.TrimPrefix(rch.ID, "reach:"))
			}
		}
		audit = runAudit(verif, seed)
		if ok, _ := audit["passed"].(bool); !ok {
			fmt.Printf("ENGINE-ERROR: assumption audit failed (an assumed library contract disagrees with the library): %v\n", audit["output"])
			return 2
		}
	}
	wall := time.Since(t0).Seconds()
	// evidence
	var fnNames []string
	assume := map[string]bool{}
	notes := map[string]bool{}
	for _, r := range run.results {
		fnNames = append(fnNames, r.Fn)
		for _, a := range r.Assumed {
			assume[a] = true
		}
		for _, n := range r.Notes {
			notes[n] = true
		}
	}
	if sweep != nil {
		for a := range sweep.assumed {
			assume[a] = true
		}
	}
	var trusted []string
	for a := range assume {
		trusted = append(trusted, a)
	}
	sort.Strings(trusted)
	trusted = append([]string{
		"go/types + golang.org/x/tools/go/ssa v0.29.0 (extraction of the verified text from /repo's working tree)",
		"gcv encoder (" + verif + "/engine), SMT solvers z3 5.1.0 / z3 4.8.12 / cvc5 1.0",
		"machine integers treated as mathematical integers with range assumptions on inputs; strings as byte strings (code points <= 255)",
		"sequential semantics per function; goroutines, channels, select not modelled",
	}, trusted...)
	if len(eng.specs.mirrorUsed) > 0 {
		trusted = append(trusted, fmt.Sprintf("contract files taken from the /verif mirror for %d packages (not present in /repo)", len(eng.specs.mirrorUsed)))
	}
	cov := map[string]interface{}{
		"obligations":              len(claimed) - nKnown,
		"discharged":               discharged,
		"checker_cmd":              fmt.Sprintf("bin/gcv check %s%s", map[bool]string{true: "-thorough ", false: ""}[thorough], prop),
		"trusted_base":             trusted,
		"functions_under_contract": fnNames,
		"discharged_by_backend":    perSolver,
		"solver_seconds":           round3(solverSecs),
		"load_seconds":             round3(loadS),
		"samples":                  samples,
		"known_findings_reported":  nKnown,
		"vacuity_canaries_sat":     len(run.canaries),
		"unmodelled_constructs":    sortedKeys(notes),
		"packages_loaded":          pats,
		"scan_obligations":         len(run.scanObls),
	}
	if sweep != nil {
		cov["sweep"] = sweep.summary()
	}
	if len(standins) > 0 {
		cov["bounded_standins_not_counted_as_proved"] = standins
	}
	if thorough {
		cov["obligation_points_unreachable"] = unreachable
		cov["assumption_audit_bounded_not_proof"] = audit
	}
	cov["vacuous_obligations_on_pinned_tree_not_claimed_as_meaningful"] = vacNow
	cov["vacuous_obligations_new"] = vacNew
	byKind := map[string]int{}
	for _, o := range claimed {
		if o.Result == "unsat" {
			byKind[o.Kind]++
		}
	}
	cov["discharged_by_kind"] = byKind
	ev := Evidence{PropertyID: prop, Tier: tier, Seed: seed, Level: "proof", Coverage: cov, Assumptions: append(propAssumptions(verif, prop), trusted...), WallS: round3(wall), Violations: violations}
	if writeEvidence {
		os.MkdirAll(filepath.Join(verif, "evidence"), 0o755)
		data, _ := json.MarshalIndent(ev, "", " ")
		os.WriteFile(filepath.Join(verif, "evidence", prop+".json"), append(data, '\n'), 0o644)
	}
	for _, l := range lines {
		fmt.Println(l)
	}
	if verbose {
		for _, o := range claimed {
			fmt.Printf("  %-10s %-8s %6.2fs %s\n", o.Result, o.Solver, o.Time, o.ID)
		}
	}
	fmt.Printf("%s %s: %d functions, %d obligations, %d discharged, %d known findings, %d violations, %.1fs (load %.1fs, solvers %.1fs)\n",
		prop, tier, len(run.results), len(claimed), discharged, nKnown, violations, wall, loadS, solverSecs)
	if violations > 0 {
		return 1
	}
	return 0
}

func stripProp(id string) string {
	if i := strings.Index(id, ":"); i >= 0 {
		return id[i+1:]
	}
	return id
}

func round3(f float64) float64 { return float64(int(f*1000+0.5)) / 1000 }

// propAssumptions: the "not decided" statements per property, kept in /verif/assumptions/<prop>.txt
func propAssumptions(verif, prop string) []string {
	data, err := os.ReadFile(filepath.Join(verif, "assumptions", prop+".txt"))
	if err != nil {
		return []string{}
	}
	var out []string
	for _, l := range strings.Split(string(data), "\n") {
		l = strings.TrimSpace(l)
		if l != "" && !strings.HasPrefix(l, "#") {
			out = append(out, l)
		}
	}
	return out
}

type ReplayRecord struct {
	Property   string            `json:"property"`
	Obligation string            `json:"obligation"`
	Kind       string            `json:"kind"`
	Clause     string            `json:"clause"`
	Function   string            `json:"function"`
	Position   string            `json:"position"`
	Result     string            `json:"solver_result"`
	Solver     string            `json:"solver"`
	Output     string            `json:"solver_output"`
	Error      string            `json:"generation_error,omitempty"`
	Inputs     map[string]string `json:"model_inputs,omitempty"`
	TestSource string            `json:"replay_test,omitempty"`
	ReplayCmd  string            `json:"replay_cmd,omitempty"`
	Reproduced bool              `json:"reproduced"`
	Observed   string            `json:"observed,omitempty"`
	Path       string            `json:"-"`
}

func writeReplay(eng *Engine, verif, prop string, o *Oblig) *ReplayRecord {
	out := o.Model
	if len(out) > 60000 {
		out = out[:60000] + "\n... (truncated)"
	}
	r := &ReplayRecord{Property: prop, Obligation: o.ID, Kind: o.Kind, Clause: o.Src, Function: o.Fn, Position: o.Pos.String(),
		Result: o.Result, Solver: o.Solver, Output: out, Error: o.Err}
	r.Path = filepath.Join(verif, "replays", fmt.Sprintf("%s-%08x.json", prop, hashStr(o.ID)))
	if o.Result == "sat" || o.candidate {
		tryReplay(eng, verif, o, r)
	}
	data, _ := json.MarshalIndent(r, "", " ")
	os.WriteFile(r.Path, append(data, '\n'), 0o644)
	return r
}

// runAudit: differential tests of the executable readings of assumed library contracts (bounded; trusted base only).
func runAudit(verif string, seed int) map[string]interface{} {
	cmd := exec.Command("go", "test", "-count=1", "-v", "./...")
	cmd.Dir = filepath.Join(verif, "audit")
	env := []string{"GOFLAGS=-mod=mod", "GOPROXY=off", "GOTOOLCHAIN=local", fmt.Sprintf("VERIF_SEED=%d", seed)}
	for _, e := range os.Environ() {
		if strings.HasPrefix(e, "GOFLAGS=") || strings.HasPrefix(e, "GOPROXY=") || strings.HasPrefix(e, "GOTOOLCHAIN=") || strings.HasPrefix(e, "VERIF_SEED=") {
			continue
		}
		env = append(env, e)
	}
	cmd.Env = env
	out, err := cmd.CombinedOutput()
	text := string(out)
	var tests []string
	for _, l := range strings.Split(text, "\n") {
		if strings.HasPrefix(l, "--- PASS") || strings.HasPrefix(l, "--- FAIL") {
			tests = append(tests, strings.TrimSpace(l))
		}
	}
	res := map[string]interface{}{"passed": err == nil, "tests": tests,
		"what": "go test in /verif/audit: Cookie.String length formula, base64 round trip/alphabet, Split/SplitN/IndexAny/LastIndexByte/IndexRune bounds, exact strings.LastIndex model, part names of valid cookie names are valid (and non-token names serialise to the empty string), http.Header Del/Add/Set model, two-way strings.SplitN model, lz4 round trip with the writer options in use (random, empty, highly repetitive, multi-block payloads), go-simplejson constructor/lookup facts"}
	if err != nil {
		res["output"] = firstLines(text, 20)
	}
	return res
}

type standinSpec struct {
	Property      string   `json:"property"`
	AlsoFor       []string `json:"also_for"` // other properties whose argument rests on the same function
	Pkg           string   `json:"pkg"`
	File          string   `json:"file"`
	Test          string   `json:"test"`
	BoundQuick    int      `json:"bound_quick"`
	BoundThorough int      `json:"bound_thorough"`
	What          string   `json:"what"`
}

var boundedRe = regexp.MustCompile(`GCV-BOUNDED: evaluations=(\d+) mismatches=(\d+) bound=(\d+) first=(.*)`)

// runStandins runs the bounded stand-ins of a property against the real code of the tree under check (go test -overlay).
func runStandins(eng *Engine, repo, verif, prop string, thorough bool) []map[string]interface{} {
	var specs []standinSpec
	data, err := os.ReadFile(filepath.Join(verif, "bounded", "standins.json"))
	if err != nil {
		return nil
	}
	json.Unmarshal(data, &specs)
	var out []map[string]interface{}
	for _, sp := range specs {
		if sp.Property != prop && !contains(sp.AlsoFor, prop) {
			continue
		}
		bound := sp.BoundQuick
		if thorough {
			bound = sp.BoundThorough
		}
		wd, _ := os.MkdirTemp("", "gcv-bounded-")
		ov := map[string]map[string]string{"Replace": {filepath.Join(repo, sp.Pkg, "zz_gcv_bounded_test.go"): filepath.Join(verif, "bounded", sp.File)}}
		ovData, _ := json.Marshal(ov)
		ovFile := filepath.Join(wd, "overlay.json")
		os.WriteFile(ovFile, ovData, 0o644)
		t0 := time.Now()
		cmd := exec.Command("go", "test", "-overlay", ovFile, "-vet=off", "-count=1", "-v", "-timeout", "300s", "-run", "^"+sp.Test+"$", ".")
		cmd.Dir = filepath.Join(repo, sp.Pkg)
		env := []string{"GOFLAGS=-mod=mod", "GOPROXY=off", "GOTOOLCHAIN=auto", fmt.Sprintf("GCV_BOUND=%d", bound)}
		for _, e := range os.Environ() {
			if strings.HasPrefix(e, "GOSUMDB=") || strings.HasPrefix(e, "GOFLAGS=") || strings.HasPrefix(e, "GOTOOLCHAIN=") || strings.HasPrefix(e, "GOPROXY=") || strings.HasPrefix(e, "GCV_BOUND=") {
				continue
			}
			env = append(env, e)
		}
		cmd.Env = env
		outB, runErr := cmd.CombinedOutput()
		os.RemoveAll(wd)
		text := string(outB)
		res := map[string]interface{}{"test": sp.Test, "package": sp.Pkg, "what": sp.What, "bound": bound, "label": "bounded", "seconds": round3(time.Since(t0).Seconds()),
			"cmd": fmt.Sprintf("GCV_BOUND=%d go test -overlay <%s> -run ^%s$ . (in %s/%s)", bound, sp.File, sp.Test, repo, sp.Pkg)}
		if m := boundedRe.FindStringSubmatch(text); m != nil {
			ev, _ := strconv.Atoi(m[1])
			mm, _ := strconv.Atoi(m[2])
			res["evaluations"] = ev
			res["mismatches"] = mm
			if mm > 0 {
				res["failed"] = true
				res["first_mismatch"] = strings.TrimSpace(m[4])
				res["output"] = firstLines(text, 12)
			}
		} else if runErr != nil {
			// the stand-in did not run to completion (does not compile against a changed tree, panicked, ...)
			if strings.Contains(text, "panic:") || strings.Contains(text, "--- FAIL") {
				res["failed"] = true
				res["first_mismatch"] = "stand-in test failed without a summary line"
				res["output"] = firstLines(text, 20)
			} else {
				res["not_run"] = firstLines(text, 6)
			}
		}
		out = append(out, res)
	}
	return out
}


// relatedByValue: the closures fn makes and the /repo methods that implement an interface method fn invokes.
func (eng *Engine) relatedByValue(fn *ssa.Function) []*ssa.Function {
	var out []*ssa.Function
	seen := map[*ssa.Function]bool{}
	add := func(f *ssa.Function) {
		if f != nil && !seen[f] {
			seen[f] = true
			out = append(out, f)
		}
	}
	for _, b := range fn.Blocks {
		for _, in := range b.Instrs {
			if mc, ok := in.(*ssa.MakeClosure); ok {
				if f, ok := mc.Fn.(*ssa.Function); ok {
					add(f)
				}
			}
			ci, ok := in.(ssa.CallInstruction)
			if !ok || !ci.Common().IsInvoke() {
				continue
			}
			cc := ci.Common()
			it, ok := cc.Value.Type().Underlying().(*types.Interface)
			if !ok {
				continue
			}
			for _, key := range sortedKeys(eng.funcs) {
				f := eng.funcs[key]
				if f.Name() != cc.Method.Name() || f.Synthetic != "" || f.Signature.Recv() == nil {
					continue
				}
				rt := f.Signature.Recv().Type()
				if types.Implements(rt, it) {
					add(f)
				} else if _, isPtr := rt.(*types.Pointer); !isPtr && types.Implements(types.NewPointer(rt), it) {
					add(f)
				}
			}
		}
	}
	return out
}
