package main

// Built-in models of library functions with exact SMT semantics (listed in the evidence as trusted models).

import (
	"fmt"
	"go/types"
	"strings"

	"golang.org/x/tools/go/ssa"
)

// names of functions with a precise model that never touches the modelled heap
var libNeutral = map[string]bool{
	"strings.HasPrefix": true, "strings.HasSuffix": true, "strings.Contains": true, "strings.Index": true,
	"strings.TrimPrefix": true, "strings.TrimSuffix": true, "strings.ContainsRune": true, "strings.IndexByte": true,
	"strings.LastIndex": true,
	"time.Now":          true, "(time.Time).Add": true, "(time.Time).After": true, "(time.Time).Before": true, "(time.Time).Sub": true,
	"(time.Time).Unix": true, "time.Unix": true, "(time.Time).IsZero": true, "time.Since": true, "time.Until": true, "(time.Time).Equal": true,
	"(time.Duration).Seconds": true, "(time.Time).Truncate": true, "(time.Time).UnixNano": true,
	"errors.New": true, "fmt.Errorf": true, "fmt.Sprintf": true, "fmt.Sprint": true, "errors.Is": true,
	"crypto/hmac.Equal": true, "crypto/subtle.ConstantTimeCompare": true, "bytes.Equal": true,
	"strconv.Itoa": true,
}

func libModelNeutral(name string) bool { return libNeutral[name] }

func libModelWrites(fe *FuncEnc, name string, c ssa.CallInstruction) []string { return nil }

func (fe *FuncEnc) libTrusted(name string) {
	fe.assumedCallees[name+" (built-in exact model)"] = true
}

// libModelPure: models usable from spec expressions (no instruction context).
func (fe *FuncEnc) libModelPure(st *State, name string, a []Term) ([]Term, bool) {
	b := func(s string) ([]Term, bool) { return []Term{boolT(s)}, true }
	i := func(s string) ([]Term, bool) { return []Term{intT(s)}, true }
	s := func(x string) ([]Term, bool) { return []Term{strT(x)}, true }
	switch name {
	case "strings.HasPrefix":
		return b(fmt.Sprintf("(str.prefixof %s %s)", a[1].S, a[0].S))
	case "strings.HasSuffix":
		return b(fmt.Sprintf("(str.suffixof %s %s)", a[1].S, a[0].S))
	case "strings.Contains":
		return b(fmt.Sprintf("(str.contains %s %s)", a[0].S, a[1].S))
	case "strings.Index":
		return i(fmt.Sprintf("(str.indexof %s %s 0)", a[0].S, a[1].S))
	case "strings.IndexByte":
		return i(fmt.Sprintf("(str.indexof %s (str.from_code %s) 0)", a[0].S, a[1].S))
	case "strings.TrimPrefix":
		return s(fmt.Sprintf("(ite (str.prefixof %s %s) (str.substr %s (str.len %s) (- (str.len %s) (str.len %s))) %s)", a[1].S, a[0].S, a[0].S, a[1].S, a[0].S, a[1].S, a[0].S))
	case "strings.TrimSuffix":
		return s(fmt.Sprintf("(ite (str.suffixof %s %s) (str.substr %s 0 (- (str.len %s) (str.len %s))) %s)", a[1].S, a[0].S, a[0].S, a[0].S, a[1].S, a[0].S))
	case "(time.Time).Add":
		return []Term{{fmt.Sprintf("(+ %s %s)", a[0].S, a[1].S), SInt, a[0].T}}, true
	case "(time.Time).Sub":
		return []Term{{fmt.Sprintf("(- %s %s)", a[0].S, a[1].S), SInt, a[1].T}}, true
	case "(time.Time).After":
		return b(fmt.Sprintf("(> %s %s)", a[0].S, a[1].S))
	case "(time.Time).Before":
		return b(fmt.Sprintf("(< %s %s)", a[0].S, a[1].S))
	case "(time.Time).Equal":
		return b(fmt.Sprintf("(= %s %s)", a[0].S, a[1].S))
	case "(time.Time).IsZero":
		return b(fmt.Sprintf("(= %s %s)", a[0].S, zeroTime))
	case "(time.Time).Unix":
		return i(fmt.Sprintf("(div %s 1000000000)", a[0].S))
	case "(time.Time).UnixNano":
		return i(a[0].S)
	case "time.Unix":
		return i(fmt.Sprintf("(+ (* %s 1000000000) %s)", a[0].S, a[1].S))
	case "strconv.Itoa":
		return s(fmt.Sprintf("(ite (>= %s 0) (str.from_int %s) (str.++ \"-\" (str.from_int (- %s))))", a[0].S, a[0].S, a[0].S))
	case "crypto/hmac.Equal", "bytes.Equal":
		return b(fmt.Sprintf("(= %s %s)", fe.contentOf(st, a[0]), fe.contentOf(st, a[1])))
	case "errors.Is":
		fe.pre.decl("(declare-fun errors_is (Int Int) Bool)")
		return b(fmt.Sprintf("(or (= %s %s) (and (not (= %s 0)) (not (= %s 0)) (errors_is %s %s)))", a[0].S, a[1].S, a[0].S, a[1].S, a[0].S, a[1].S))
	}
	return nil, false
}

func (fe *FuncEnc) contentOf(st *State, t Term) string {
	if t.K == SString {
		return t.S
	}
	return fe.bytesContent(st, t.S)
}

// constRegexOf: the pattern literal when v is the value of an immutable package-level variable initialised by
// regexp.MustCompile("literal") (read from the init function's SSA on every run).
func (eng *Engine) constRegexOf(v ssa.Value) (string, bool) {
	u, ok := v.(*ssa.UnOp)
	if !ok {
		return "", false
	}
	g, ok := u.X.(*ssa.Global)
	if !ok || !eng.immutableGlobal(g) {
		return "", false
	}
	init := g.Pkg.Func("init")
	if init == nil {
		return "", false
	}
	for _, b := range init.Blocks {
		for _, in := range b.Instrs {
			s, ok := in.(*ssa.Store)
			if !ok || s.Addr != ssa.Value(g) {
				continue
			}
			call, ok := s.Val.(*ssa.Call)
			if !ok {
				return "", false
			}
			f := call.Common().StaticCallee()
			if f == nil || fullName(f) != "regexp.MustCompile" {
				return "", false
			}
			c, ok := call.Common().Args[0].(*ssa.Const)
			if !ok || c.Value == nil {
				return "", false
			}
			pat, err := unquoteGo(c.Value.ExactString())
			if err != nil {
				return "", false
			}
			return pat, true
		}
	}
	return "", false
}

// libModel: models needing the instruction context (fresh values, variadics).
func (fr *Frame) libModel(c ssa.CallInstruction, fn *ssa.Function, st *State, a []Term) ([]Term, bool) {
	fe := fr.fe
	name := fullName(fn)
	if name == "(*regexp.Regexp).MatchString" {
		if pat, ok := fe.eng.constRegexOf(c.Common().Args[0]); ok {
			if t, err := regexMatchTerm(pat, a[1].S); err == nil {
				n := fe.define(fe.fresh(fr.prefix+"MatchString"), SBool, t)
				fe.libTrusted("regexp: literal pattern " + fmt.Sprintf("%q", pat) + " translated to an SMT regular language")
				return []Term{{n, SBool, types.Typ[types.Bool]}}, true
			}
		}
		return nil, false
	}
	if !libNeutral[name] {
		return nil, false
	}
	if rets, ok := fe.libModelPure(st, name, a); ok {
		for i := range rets {
			// name the result so later references stay small
			rts := resultTypes(c)
			if i < len(rts) {
				k := fe.sorts.SortOf(rts[i])
				n := fe.define(fe.fresh(fr.prefix+mangle(fn.Name())), k, rets[i].S)
				rets[i] = Term{n, k, rts[i]}
			}
		}
		fe.libTrusted(name)
		return rets, true
	}
	rts := resultTypes(c)
	switch name {
	case "strings.LastIndex":
		// exact characterisation: r is -1 and sep does not occur, or sep occurs at r and nowhere later
		// (an empty sep gives len(s), as in Go)
		n := fe.fresh(fr.prefix + "LastIndex")
		fe.declConst(n, SInt)
		sv, sep := a[0].S, a[1].S
		fe.assume(fmt.Sprintf("(ite (= %s \"\") (= %s (str.len %s)) (or (and (= %s (- 1)) (not (str.contains %s %s))) (and (<= 0 %s) (= (str.substr %s %s (str.len %s)) %s) (not (str.contains (str.substr %s (+ %s 1) (str.len %s)) %s)))))",
			sep, n, sv, n, sv, sep, n, sv, n, sep, sep, sv, n, sv, sep))
		fe.libTrusted(name)
		return []Term{{n, SInt, rts[0]}}, true
	case "time.Now":
		n := fe.fresh("now")
		fe.declConst(n, SInt)
		if fe.nowLast != "" {
			fe.assume(fmt.Sprintf("(>= %s %s)", n, fe.nowLast))
		} else {
			// after 2020, before year 2200: rules out the zero time
			fe.assume(fmt.Sprintf("(and (> %s 1577836800000000000) (< %s 7258118400000000000))", n, n))
		}
		fe.nowLast = n
		fe.libTrusted(name)
		return []Term{{n, SInt, rts[0]}}, true
	case "time.Since":
		n := fe.fresh("now")
		fe.declConst(n, SInt)
		if fe.nowLast != "" {
			fe.assume(fmt.Sprintf("(>= %s %s)", n, fe.nowLast))
		} else {
			fe.assume(fmt.Sprintf("(and (> %s 1577836800000000000) (< %s 7258118400000000000))", n, n))
		}
		fe.nowLast = n
		fe.libTrusted(name)
		return []Term{{fmt.Sprintf("(- %s %s)", n, a[0].S), SInt, rts[0]}}, true
	case "(time.Duration).Seconds":
		n := fe.define(fe.fresh(fr.prefix+"secs"), SReal, fmt.Sprintf("(/ (to_real %s) 1000000000.0)", a[0].S))
		fe.libTrusted(name + " [floating point treated as exact rational]")
		return []Term{{n, SReal, rts[0]}}, true
	case "errors.New", "fmt.Errorf":
		r := fe.newRef(fr.prefix + "err")
		fe.libTrusted(name)
		return []Term{{r, SInt, rts[0]}}, true
	case "fmt.Sprintf":
		fe.libTrusted(name)
		return []Term{fr.sprintf(c, st, a)}, true
	}
	return nil, false
}

// sprintf models fmt.Sprintf for constant formats using %s %v %d (string / integer operands exactly, others abstractly).
func (fr *Frame) sprintf(c ssa.CallInstruction, st *State, a []Term) Term {
	fe := fr.fe
	abstract := func() Term {
		return fe.havocVal(fr.prefix+"sprintf", types.Typ[types.String])
	}
	fc, ok := c.Common().Args[0].(*ssa.Const)
	if !ok || fc.Value == nil {
		return abstract()
	}
	format := strings.Trim(fc.Value.ExactString(), "\"")
	if uq, err := unquoteGo(fc.Value.ExactString()); err == nil {
		format = uq
	}
	elems, ok := fr.variadicElems(c.Common().Args[1])
	if !ok {
		return abstract()
	}
	var parts []string
	lit := ""
	ai := 0
	for i := 0; i < len(format); i++ {
		ch := format[i]
		if ch != '%' {
			lit += string(ch)
			continue
		}
		if i+1 >= len(format) {
			return abstract()
		}
		i++
		verb := format[i]
		if verb == '%' {
			lit += "%"
			continue
		}
		if lit != "" {
			parts = append(parts, smtStr(lit))
			lit = ""
		}
		if ai >= len(elems) {
			return abstract()
		}
		ev := elems[ai]
		ai++
		var op ssa.Value = ev
		if mi, ok := ev.(*ssa.MakeInterface); ok {
			op = mi.X
		}
		t := fr.val(op)
		switch {
		case (verb == 's' || verb == 'v') && t.K == SString:
			parts = append(parts, t.S)
		case (verb == 'd' || verb == 'v') && t.K == SInt && isIntegerType(op.Type()):
			parts = append(parts, fmt.Sprintf("(ite (>= %s 0) (str.from_int %s) (str.++ \"-\" (str.from_int (- %s))))", t.S, t.S, t.S))
		default:
			// abstract rendering, deterministic in the operand
			fnm := fmt.Sprintf("fmt_%c_%s", verb, mangle(string(t.K)))
			fe.pre.decl(fmt.Sprintf("(declare-fun %s (%s) String)", fnm, t.K))
			parts = append(parts, fmt.Sprintf("(%s %s)", fnm, t.S))
		}
	}
	if lit != "" {
		parts = append(parts, smtStr(lit))
	}
	var expr string
	switch len(parts) {
	case 0:
		expr = "\"\""
	case 1:
		expr = parts[0]
	default:
		expr = "(str.++ " + strings.Join(parts, " ") + ")"
	}
	n := fe.define(fe.fresh(fr.prefix+"sprintf"), SString, expr)
	return Term{n, SString, types.Typ[types.String]}
}

func isIntegerType(t types.Type) bool {
	b, ok := t.Underlying().(*types.Basic)
	return ok && b.Info()&types.IsInteger != 0
}

func unquoteGo(s string) (string, error) {
	var out string
	_, err := fmt.Sscanf(s, "%q", &out)
	return out, err
}
