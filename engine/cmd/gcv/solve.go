package main

// Solver portfolio: z3-new (5.1.0), z3 (4.8.12), cvc5 raced per obligation.

import (
	"bytes"
	"context"
	"fmt"
	"os"
	"os/exec"
	"path/filepath"
	"strings"
	"sync"
	"time"
)

const smtHeader = `(set-option :produce-models true)
(set-logic ALL)
(declare-datatypes ((Slice 0)) (((mk_slice (s_base Int) (s_off Int) (s_len Int) (s_cap Int)))))
(declare-fun born (Int) Int)
(define-fun godiv ((a Int) (b Int)) Int (ite (>= a 0) (ite (> b 0) (div a b) (- (div a (- b)))) (ite (> b 0) (- (div (- a) b)) (div (- a) (- b)))))
(define-fun gomod ((a Int) (b Int)) Int (- a (* b (godiv a b))))
`

func (o *Oblig) Query() string { return o.query(false) }

// query: relaxed drops the quantified modelling facts (";axiom" lines). Dropping assumptions is sound for unsat
// answers and gives the solvers a chance to produce a candidate model, which replay then validates on the real code.
func (o *Oblig) query(relaxed bool) string {
	var b strings.Builder
	b.WriteString(smtHeader)
	for _, d := range o.prel.decls {
		b.WriteString(d)
		b.WriteByte('\n')
	}
	for i, l := range o.prel.body {
		if (o.Kind == "canary" || relaxed || o.relaxed) && strings.Contains(l, "; axiom") {
			continue // quantified axioms make sat unreachable for the solvers; the canary checks everything else
		}
		// An obligation may use what was assumed before its program point, never what is assumed later (a loop invariant
		// assumed at the head, a callee's postcondition after a later call): facts from the future can prove the present.
		if o.nline > 0 && i >= o.nline && strings.HasPrefix(l, "(assert") && !strings.HasSuffix(l, "; spec") && !strings.HasSuffix(l, "; def") {
			continue
		}
		b.WriteString(l)
		b.WriteByte('\n')
	}
	b.WriteString(fmt.Sprintf("(assert %s)\n", sAnd(o.Reach, sNot(o.Formula))))
	b.WriteString("(check-sat)\n(get-model)\n")
	return b.String()
}

type solverSpec struct {
	name string
	args func(file string, timeoutS int) []string
}

var solvers = []solverSpec{
	{"z3-new", func(f string, t int) []string { return []string{fmt.Sprintf("-T:%d", t), f} }},
	{"z3", func(f string, t int) []string { return []string{fmt.Sprintf("-T:%d", t), f} }},
	{"cvc5", func(f string, t int) []string {
		return []string{fmt.Sprintf("--tlimit=%d", t*1000), "--produce-models", "--strings-exp", f}
	}},
}

type solveOut struct {
	solver string
	result string // sat, unsat, unknown, timeout, error
	output string
	secs   float64
}

func runSolver(ctx context.Context, s solverSpec, file string, timeoutS int) solveOut {
	start := time.Now()
	cctx, cancel := context.WithTimeout(ctx, time.Duration(timeoutS+2)*time.Second)
	defer cancel()
	cmd := exec.CommandContext(cctx, s.name, s.args(file, timeoutS)...)
	var out bytes.Buffer
	cmd.Stdout = &out
	cmd.Stderr = &out
	_ = cmd.Run()
	secs := time.Since(start).Seconds()
	text := out.String()
	// z3 prints warnings (e.g. about a pattern it will not use) before the answer
	for strings.HasPrefix(text, "WARNING") {
		if i := strings.Index(text, "\n"); i >= 0 {
			text = text[i+1:]
		} else {
			break
		}
	}
	first := strings.TrimSpace(strings.SplitN(text, "\n", 2)[0])
	res := "error"
	switch first {
	case "sat", "unsat", "unknown":
		res = first
	case "timeout":
		res = "timeout"
	default:
		if cctx.Err() != nil {
			res = "timeout"
		} else if strings.Contains(text, "timeout") || strings.Contains(text, "interrupted") {
			res = "timeout"
		}
	}
	return solveOut{s.name, res, text, secs}
}

// solve races the portfolio; in agree mode waits for all and demands agreement.
func solve(o *Oblig, workdir string, timeoutS int, agree bool) (err error) {
	q := o.Query()
	f := filepath.Join(workdir, mangle(o.ID)+".smt2")
	if len(f) > 200 {
		f = filepath.Join(workdir, fmt.Sprintf("q%x.smt2", hashStr(o.ID)))
	}
	if err := os.WriteFile(f, []byte(q), 0o644); err != nil {
		return err
	}
	ctx, cancel := context.WithCancel(context.Background())
	defer cancel()
	ch := make(chan solveOut, len(solvers))
	var wg sync.WaitGroup
	for _, s := range solvers {
		wg.Add(1)
		go func(s solverSpec) {
			defer wg.Done()
			ch <- runSolver(ctx, s, f, timeoutS)
		}(s)
	}
	go func() { wg.Wait(); close(ch) }()
	var outs []solveOut
	var decided *solveOut
	for r := range ch {
		outs = append(outs, r)
		if (r.result == "sat" || r.result == "unsat") && decided == nil {
			rr := r
			decided = &rr
			if !agree {
				cancel()
				break
			}
		}
	}
	if decided == nil && !o.relaxed && strings.Contains(q, "; axiom") {
		// second attempt without the quantified modelling facts
		o.relaxed = true
		var parts []string
		for _, r := range outs {
			parts = append(parts, fmt.Sprintf("%s: %s (%.2fs)", r.solver, r.result, r.secs))
			o.Time += r.secs
		}
		first := strings.Join(parts, "; ")
		if err := solve(o, workdir, timeoutS, false); err != nil {
			return err
		}
		if o.Result == "sat" {
			// a candidate model only: the full query stays undecided
			o.Result = "unknown"
			o.candidate = true
			o.Model = "full query undecided (" + first + "); candidate model from the query without quantified modelling facts:\n" + o.Model
		} else if o.Result == "unsat" {
			o.Solver += "(relaxed)"
		}
		return nil
	}
	if decided == nil {
		o.Result = "unknown"
		var parts []string
		for _, r := range outs {
			parts = append(parts, fmt.Sprintf("%s: %s (%.2fs)", r.solver, r.result, r.secs))
			if r.result == "error" {
				parts = append(parts, firstLines(r.output, 3))
			}
			o.Time += r.secs
		}
		o.Model = strings.Join(parts, "; ")
		return nil
	}
	if agree {
		for _, r := range outs {
			if (r.result == "sat" || r.result == "unsat") && r.result != decided.result {
				return fmt.Errorf("solver disagreement on %s: %s says %s, %s says %s", o.ID, decided.solver, decided.result, r.solver, r.result)
			}
		}
	}
	o.Result = decided.result
	o.Solver = decided.solver
	o.Time = decided.secs
	if decided.result == "sat" {
		o.Model = decided.output
	} else {
		os.Remove(f)
	}
	return nil
}

func firstLines(s string, n int) string {
	ls := strings.Split(s, "\n")
	if len(ls) > n {
		ls = ls[:n]
	}
	return strings.Join(ls, " | ")
}

func hashStr(s string) uint32 {
	var h uint32 = 2166136261
	for i := 0; i < len(s); i++ {
		h ^= uint32(s[i])
		h *= 16777619
	}
	return h
}

// solveAll discharges obligations in parallel.
func solveAll(obls []*Oblig, workdir string, timeoutS int, agree bool, par int) error {
	sem := make(chan struct{}, par)
	var wg sync.WaitGroup
	var mu sync.Mutex
	var firstErr error
	for _, o := range obls {
		if o.Err != "" {
			o.Result = "unresolved"
			continue
		}
		if o.Formula == "true" || o.Reach == "false" {
			o.Result = "unsat"
			o.Solver = "trivial"
			continue
		}
		wg.Add(1)
		sem <- struct{}{}
		go func(o *Oblig) {
			defer wg.Done()
			defer func() { <-sem }()
			if err := solve(o, workdir, timeoutS, agree); err != nil {
				mu.Lock()
				if firstErr == nil {
					firstErr = err
				}
				mu.Unlock()
			}
		}(o)
	}
	wg.Wait()
	if firstErr != nil {
		return firstErr
	}
	// second pass: whatever stayed undecided is tried again, few at a time and with four times the budget, so that a
	// loaded machine (other checks running beside this one) does not turn a dischargeable obligation into an alarm
	var again []*Oblig
	for _, o := range obls {
		if o.Result == "unknown" && o.Err == "" && !o.retried && !o.noRetry {
			again = append(again, o)
		}
	}
	if os.Getenv("GCV_DEBUG_RETRY") != "" {
		for _, o := range again {
			fmt.Fprintln(os.Stderr, "retry:", o.ID)
		}
	}
	if len(again) == 0 || len(again) > 40 {
		return nil
	}
	sem2 := make(chan struct{}, 3)
	for _, o := range again {
		o.retried = true
		prev := *o
		o.relaxed, o.candidate, o.Time, o.Model, o.Result = false, false, 0, "", ""
		wg.Add(1)
		sem2 <- struct{}{}
		go func(o *Oblig, prev Oblig) {
			defer wg.Done()
			defer func() { <-sem2 }()
			if err := solve(o, workdir, timeoutS*4, agree); err != nil {
				mu.Lock()
				if firstErr == nil {
					firstErr = err
				}
				mu.Unlock()
			}
			if o.Result == "unknown" && !o.candidate && prev.candidate {
				// keep the more informative first answer
				t := o.Time
				*o = prev
				o.Time += t
			}
		}(o, prev)
	}
	wg.Wait()
	return firstErr
}
