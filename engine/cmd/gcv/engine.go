package main

// Engine: loading /repo, locating functions, generating obligations per function.

import (
	"fmt"
	"go/ast"
	"go/types"
	"os"
	"path/filepath"
	"sort"
	"strings"

	"golang.org/x/tools/go/packages"
	"golang.org/x/tools/go/ssa"
	"golang.org/x/tools/go/ssa/ssautil"
)

const modPath = "github.com/oauth2-proxy/oauth2-proxy/v7"

type Engine struct {
	repo, verif   string
	prog          *ssa.Program
	pkgs          []*packages.Package
	allPkgs       map[string]*packages.Package
	specs         *SpecDB
	globalsSeen   map[string]bool
	ifaceEnsCache map[*ssa.Function][]*Clause
	globalVals    map[string]*ssa.Global
	funcs         map[string]*ssa.Function // pkgpath::relname -> fn (repo only)
	allFns        map[*ssa.Function]bool
	mutGlobals    map[*ssa.Global]bool // globals stored to outside init
	sweepMode     bool
	sweepProps    []string
	loadSecs      float64
	aliasCache    map[string]map[string]*types.Package
	byFull        map[string]*ssa.Function
	sentinels     map[*ssa.Global]bool // error globals initialised once by errors.New / fmt.Errorf
}

func loadEngine(repo, verif string, patterns []string) (*Engine, error) {
	eng := &Engine{repo: repo, verif: verif, globalsSeen: map[string]bool{}, globalVals: map[string]*ssa.Global{},
		funcs: map[string]*ssa.Function{}, allPkgs: map[string]*packages.Package{}, mutGlobals: map[*ssa.Global]bool{},
		aliasCache: map[string]map[string]*types.Package{}}
	env := append(os.Environ(), "GOFLAGS=-mod=mod", "GOPROXY=off", "GOTOOLCHAIN=auto")
	// GOSUMDB must stay unset (the toolchain switch to go1.23.7 needs it)
	var env2 []string
	for _, e := range env {
		if strings.HasPrefix(e, "GOSUMDB=") {
			continue
		}
		env2 = append(env2, e)
	}
	cfg := &packages.Config{Mode: packages.LoadAllSyntax, Dir: repo, BuildFlags: []string{"-tags=verif"}, Env: env2}
	pkgs, err := packages.Load(cfg, patterns...)
	if err != nil {
		return nil, err
	}
	nerr := 0
	packages.Visit(pkgs, nil, func(p *packages.Package) {
		eng.allPkgs[p.PkgPath] = p
		for _, e := range p.Errors {
			if strings.HasPrefix(p.PkgPath, modPath) {
				fmt.Fprintf(os.Stderr, "load error in %s: %v\n", p.PkgPath, e)
				nerr++
			}
		}
	})
	if nerr > 0 {
		return nil, fmt.Errorf("%d load errors in /repo packages (does the tree compile with -tags verif?)", nerr)
	}
	eng.pkgs = pkgs
	prog, _ := ssautil.AllPackages(pkgs, ssa.GlobalDebug|ssa.InstantiateGenerics)
	prog.Build()
	eng.prog = prog
	eng.allFns = ssautil.AllFunctions(prog)
	eng.byFull = map[string]*ssa.Function{}
	eng.sentinels = map[*ssa.Global]bool{}
	for fn := range eng.allFns {
		if fn.Parent() == nil && fn.Synthetic == "" {
			eng.byFull[fullName(fn)] = fn
		}
		if eng.inRepo(fn) {
			eng.funcs[fnPkgPath(fn)+"::"+relName(fn)] = fn
		}
		// mutable globals: any store to a global outside a package initializer
		if fn.Name() == "init" || strings.HasPrefix(fn.Name(), "init#") {
			for _, b := range fn.Blocks {
				for _, in := range b.Instrs {
					if s, ok := in.(*ssa.Store); ok {
						if g, ok := s.Addr.(*ssa.Global); ok {
							if c, ok := s.Val.(*ssa.Call); ok {
								if f := c.Common().StaticCallee(); f != nil && (fullName(f) == "errors.New" || fullName(f) == "fmt.Errorf") {
									eng.sentinels[g] = true
								}
							}
						}
					}
				}
			}
			continue
		}
		for _, b := range fn.Blocks {
			for _, in := range b.Instrs {
				if s, ok := in.(*ssa.Store); ok {
					if g, ok := s.Addr.(*ssa.Global); ok {
						eng.mutGlobals[g] = true
					}
				}
			}
		}
	}
	// contracts
	eng.specs = newSpecDB()
	dirs := map[string]string{}
	for path, p := range eng.allPkgs {
		if strings.HasPrefix(path, modPath) && len(p.GoFiles) > 0 {
			dirs[path] = filepath.Dir(p.GoFiles[0])
		}
	}
	if err := eng.specs.loadAll(repo, verif, dirs); err != nil {
		return nil, err
	}
	return eng, nil
}

func (eng *Engine) inRepo(fn *ssa.Function) bool {
	return strings.HasPrefix(fnPkgPath(fn), modPath)
}

func (eng *Engine) displayName(fn *ssa.Function) string {
	return shortPkg(fnPkgPath(fn)) + "." + relName(fn)
}

func (eng *Engine) safetyOn(fe *FuncEnc) bool {
	return eng.sweepMode || (fe.fc != nil && fe.fc.Safety)
}

func (eng *Engine) safetyProps(fe *FuncEnc) []string {
	if eng.sweepMode {
		return eng.sweepProps
	}
	if fe.fc != nil {
		return fe.fc.Props
	}
	return nil
}

func (eng *Engine) immutableGlobal(g *ssa.Global) bool {
	return !eng.mutGlobals[g]
}

// nonNilGlobal: package-level error sentinels and encodings are initialised to non-nil values.
func (eng *Engine) nonNilGlobal(g *ssa.Global) bool {
	t := g.Type().Underlying().(*types.Pointer).Elem()
	if t.String() == "error" {
		return true
	}
	if p, ok := t.Underlying().(*types.Pointer); ok {
		_ = p
		return !eng.inRepo2(g)
	}
	return false
}

func (eng *Engine) inRepo2(g *ssa.Global) bool {
	return strings.HasPrefix(g.Pkg.Pkg.Path(), modPath)
}

func (eng *Engine) pkgByName(name string) *types.Package {
	var cands []string
	for path, p := range eng.allPkgs {
		if p.Types != nil && p.Types.Name() == name {
			cands = append(cands, path)
		}
	}
	sort.Strings(cands)
	// prefer standard library / shortest path
	sort.SliceStable(cands, func(i, j int) bool { return len(cands[i]) < len(cands[j]) })
	if len(cands) > 0 {
		return eng.allPkgs[cands[0]].Types
	}
	return nil
}

func (eng *Engine) importAlias(pkg *types.Package, name string) *types.Package {
	m, ok := eng.aliasCache[pkg.Path()]
	if !ok {
		m = map[string]*types.Package{}
		if pp := eng.allPkgs[pkg.Path()]; pp != nil {
			for _, f := range pp.Syntax {
				for _, im := range f.Imports {
					path := strings.Trim(im.Path.Value, "\"")
					ip := eng.allPkgs[path]
					if ip == nil || ip.Types == nil {
						continue
					}
					n := ip.Types.Name()
					if im.Name != nil {
						n = im.Name.Name
					}
					if _, dup := m[n]; !dup {
						m[n] = ip.Types
					}
				}
			}
		}
		eng.aliasCache[pkg.Path()] = m
	}
	return m[name]
}

func (eng *Engine) pkgOfKey(key string) *types.Package {
	// key: pkgpath.Iface.Method
	parts := strings.Split(key, ".")
	if len(parts) < 3 {
		return nil
	}
	path := strings.Join(parts[:len(parts)-2], ".")
	if p := eng.allPkgs[path]; p != nil {
		return p.Types
	}
	return nil
}

// freeVarIsCell: go/ssa captures variables by reference; a FreeVar of type *T stands for variable of type T
// unless the captured variable itself has pointer type *T ... distinguished by the MakeClosure binding being an Alloc.
func (eng *Engine) freeVarIsCell(fn *ssa.Function, i int) bool {
	par := fn.Parent()
	if par == nil {
		return false
	}
	for _, b := range par.Blocks {
		for _, in := range b.Instrs {
			if mc, ok := in.(*ssa.MakeClosure); ok && mc.Fn == fn && i < len(mc.Bindings) {
				if _, isAlloc := mc.Bindings[i].(*ssa.Alloc); isAlloc {
					return true
				}
				// nested closure: the binding is the parent's own free variable (already a pointer to the cell)
				if pfv, ok := mc.Bindings[i].(*ssa.FreeVar); ok {
					for j, f := range par.FreeVars {
						if f == pfv {
							return eng.freeVarIsCell(par, j)
						}
					}
				}
				return false
			}
		}
	}
	return false
}

func (eng *Engine) lookupFunc(pkgPath, rel string) *ssa.Function {
	return eng.funcs[pkgPath+"::"+rel]
}

var _ = ast.NewIdent

// ---- per-function verification ----

type FuncResult struct {
	Fn         string
	Contract   *FuncContract
	Obls       []*Oblig
	Notes      []string
	Assumed    []string
	Inlined    []string
	Canary     *Oblig
	HeapCount  int
	BodyLines  int
	UsedFns    []*ssa.Function
	Closure    bool
	UsedIfaces []string
}

func (fe *FuncEnc) nilableParam(name string) bool {
	if fe.fc != nil && fe.fc.Nilable[name] {
		return true
	}
	return fe.eng.sweepMode && fe.fc == nil && false
}

// encodeFunction generates all obligations for fn under contract fc (fc may be nil in sweep mode).
func (eng *Engine) encodeFunction(fn *ssa.Function, fc *FuncContract, extra []*Clause) *FuncResult {
	universe := map[string]Sort{}
	stable := map[string]bool{}
	var fe *FuncEnc
	for pass := 1; pass <= 4; pass++ {
		fe = &FuncEnc{eng: eng, fn: fn, fc: fc, pre: &Prelude{declSet: map[string]bool{}}, sorts: newSorts(),
			heapSorts: map[string]Sort{}, heapStable: map[string]bool{}, protected: map[string]types.Type{}, opCount: map[string]int{},
			assumedCallees: map[string]bool{}, inlinedCallees: map[string]bool{}, usedContracts: map[string]bool{}, usedFns: map[*ssa.Function]bool{}, usedIfaces: map[string]bool{}, pass: pass, seqLen: map[string]string{}, linked: map[string]bool{}, storeReach: map[string][]string{}, cvSeen: map[string]bool{}}
		for k, v := range universe {
			fe.heapSorts[k] = v
		}
		for k, v := range stable {
			fe.heapStable[k] = v
		}
		fe.run(extra)
		if len(fe.heapSorts) == len(universe) {
			break
		}
		for k, v := range fe.heapSorts {
			universe[k] = v
		}
		for k, v := range fe.heapStable {
			stable[k] = v
		}
	}
	res := &FuncResult{Fn: eng.displayName(fn), Contract: fc, Obls: fe.obls, Notes: fe.notes, HeapCount: len(fe.heapSorts), BodyLines: len(fe.pre.body)}
	res.Assumed = sortedKeys(fe.assumedCallees)
	res.Inlined = sortedKeys(fe.inlinedCallees)
	for f := range fe.usedFns {
		res.UsedFns = append(res.UsedFns, f)
	}
	sort.Slice(res.UsedFns, func(i, j int) bool { return fullName(res.UsedFns[i]) < fullName(res.UsedFns[j]) })
	res.UsedIfaces = sortedKeys(fe.usedIfaces)
	// header: sorts
	fe.pre.decls = append(fe.sorts.Decls(), fe.pre.decls...)
	res.Canary = &Oblig{ID: "canary:" + res.Fn, Kind: "canary", Fn: res.Fn, Label: "prelude-consistent", Reach: "true", Formula: "false", prel: fe.pre}
	return res
}

func (fe *FuncEnc) run(extra []*Clause) {
	eng := fe.eng
	fn := fe.fn
	fr := &Frame{fe: fe, fn: fn, prefix: "", vals: map[ssa.Value]Term{}, tuples: map[ssa.Value][]Term{}, closures: map[ssa.Value]*ssa.MakeClosure{}}
	fe.top = fr
	st := &State{heap: map[string]string{}, alive: "true"}
	for _, h := range sortedKeys(fe.heapSorts) {
		fe.hget(st, h)
	}
	fe.curState = st
	declIn := func(kind string, name string, t types.Type, nonnil bool) Term {
		k := fe.sorts.SortOf(t)
		n := kind + "_" + mangle(name)
		fe.declConst(n, k)
		fe.assumeTypeInv(n, t)
		if nonnil && k == SInt {
			switch t.Underlying().(type) {
			case *types.Pointer, *types.Interface, *types.Signature, *types.Map:
				fe.assume(fmt.Sprintf("(not (= %s 0))", n))
			}
		}
		return Term{n, k, t}
	}
	for i, p := range fn.Params {
		name := p.Name()
		if name == "" || name == "_" {
			name = fmt.Sprintf("arg%d", i)
		}
		nonnil := !fe.nilableParam(p.Name())
		// (a receiver declared `nilable` is not assumed non-nil either: GetClaim is called on nil sessions)
		// in sweep mode only receivers are assumed non-nil... and parameters (checked at call sites in the cone)
		t := declIn("p", name, p.Type(), nonnil)
		fr.vals[p] = t
		fr.params = append(fr.params, t)
	}
	for _, fv := range fn.FreeVars {
		t := declIn("fv", fv.Name(), fv.Type(), !fe.nilableParam(fv.Name()))
		fr.vals[fv] = t
		fr.free = append(fr.free, t)
	}
	fr.init = st.clone()
	// global axioms
	for _, ax := range eng.specs.axioms {
		if fe.fc == nil || !contains(fe.fc.Uses, ax.Label) {
			continue
		}
		env := &Env{fe: fe, st: st, old: st, vars: map[string]Term{}, calleeMode: true}
		if fn.Pkg != nil {
			env.pkg = fn.Pkg.Pkg
		}
		f, err := env.evalBool(ax.Expr)
		if err != nil {
			fe.note("axiom %s: %v", ax.Label, err)
			continue
		}
		fe.emit("(assert " + f + ") ; axiom")
		fe.assumedCallees["axiom "+ax.Label+": "+ax.Src] = true
	}
	// requires
	var ensures, sinks []*Clause
	if fe.fc != nil {
		for _, r := range fe.fc.Requires {
			env := fr.envAt(st)
			f, err := env.evalBool(r.Expr)
			if err != nil {
				fe.addOblig(&Oblig{Kind: "requires", Props: r.Props, Label: r.Label, Reach: "true", Formula: "false", Src: r.Src}, err)
				continue
			}
			fe.assume(f)
			if strings.HasPrefix(r.Label, "config:") {
				fe.assumedCallees["configuration invariant assumed by "+relName(fn)+": "+r.Src+eng.establishedBy(r.Label)] = true
			} else {
				// a method's precondition is checked at its static call sites; a caller that reaches it through an interface
				// only knows the interface method's contract, so that contract has to state the same precondition
				for _, miss := range eng.requiresNotOfferedByIfaces(fn, r) {
					fe.addOblig(&Oblig{Kind: "requires", Props: r.Props, Label: "offered-through:" + miss + ":" + r.Label, Reach: "true", Formula: "false",
						Src: "the interface method " + miss + " has no `requires " + r.Src + "` (callers through the interface would not be checked)"}, nil)
				}
			}
		}
		ensures = append(ensures, fe.fc.Ensures...)
		sinks = append(sinks, fe.fc.Sinks...)
	}
	// what the interface method demands of its callers may be assumed by every implementation: callers through the interface
	// are checked against it (callpre), and an implementation's own, additional preconditions must be offered by the interface
	for _, c := range eng.ifaceClausesFor(fn) {
		if c.Kind != "requires" {
			continue
		}
		env := fr.envAt(st)
		for k, v := range ifaceParamBinding(fe, fr, c) {
			env.vars[k] = v
		}
		if f, err := env.evalBool(c.Expr); err == nil {
			fe.assume(f)
		}
	}
	for _, c := range extra {
		if c.Kind == "ensures" {
			ensures = append(ensures, c)
		}
	}
	exits := fr.encode(st)
	// postconditions
	sig := fn.Signature
	for _, en := range ensures {
		for ei, ex := range exits {
			env := fr.envAt(ex.st)
			env.at = ex.ret.Block()
			env.entryParams = true
			bindResults(env, sig, ex.results)
			if en.Kind == "ensures" && strings.HasPrefix(en.Label, "iface:") {
				// iface clause: positional parameter names of the interface method
				for k, v := range ifaceParamBinding(fe, fr, en) {
					env.vars[k] = v
				}
			}
			f, err := env.evalBool(en.Expr)
			label := en.Label
			if len(exits) > 1 {
				label = fmt.Sprintf("%s@ret%d", en.Label, ei)
			}
			fe.addOblig(&Oblig{Kind: "post", Props: en.Props, Label: label, Reach: ex.cond, Formula: f, Src: en.Src, Pos: fr.pos(ex.ret.Pos()), clause: en.Expr, nline: ex.nline}, err)
		}
		if len(exits) == 0 {
			fe.note("function %s has no return", relName(fn))
		}
	}
	// `fresh`: callers assume the first result is nil or an object made by this activation; checked structurally on the
	// SSA of every return (allocation, make, closure, nil, or the result of a callee that is itself `fresh`)
	if fe.fc != nil && fe.fc.Fresh && fr.depth == 0 {
		for ei, ex := range exits {
			if len(ex.ret.Results) == 0 {
				continue
			}
			switch ex.ret.Results[0].Type().Underlying().(type) {
			case *types.Pointer, *types.Interface, *types.Map, *types.Chan, *types.Signature:
			default:
				continue // callers draw no conclusion from `fresh` for value-typed results
			}
			why := eng.notFresh(ex.ret.Results[0], map[ssa.Value]bool{})
			label := "result-is-new"
			if len(exits) > 1 {
				label = fmt.Sprintf("result-is-new@ret%d", ei)
			}
			f := "true"
			var err error
			if why != "" {
				f = "false"
				err = fmt.Errorf("the returned value is not provably new: %s", why)
			}
			fe.addOblig(&Oblig{Kind: "fresh", Props: fe.fc.Props, Label: label, Reach: ex.cond, Formula: f, Src: "fresh: the result is nil or allocated by this call", Pos: fr.pos(ex.ret.Pos())}, err)
		}
	}
	// sinks
	for _, sk := range sinks {
		css, err := fe.findCalls(sk.Call)
		if err != nil {
			fe.addOblig(&Oblig{Kind: "sink", Props: sk.Props, Label: sk.Label, Reach: "true", Formula: "false", Src: sk.Src}, err)
			continue
		}
		for i, cs := range css {
			env := fr.envAt(cs.pre)
			env.at = cs.block
			env.entryParams = true
			env.curCall = cs
			env.curName = sk.Call
			f, err := env.evalBool(sk.Expr)
			label := sk.Label
			if len(css) > 1 {
				label = fmt.Sprintf("%s#%d", sk.Label, i)
			}
			fe.addOblig(&Oblig{Kind: "sink", Props: sk.Props, Label: label, Reach: cs.reach, Formula: f, Src: "at call " + sk.Call + " assert " + sk.Src, Pos: fr.pos(cs.instr.Pos()), nline: cs.nline}, err)
		}
	}
	// obligation ids
	seen := map[string]int{}
	for _, o := range fe.obls {
		prop := "-"
		if len(o.Props) > 0 {
			prop = strings.Join(o.Props, "+")
		}
		id := fmt.Sprintf("%s:%s:%s:%s", prop, o.Fn, o.Kind, o.Label)
		seen[id]++
		if seen[id] > 1 {
			id = fmt.Sprintf("%s~%d", id, seen[id]-1)
		}
		o.ID = id
	}
}

var ifaceBindings = map[*Clause]map[string]int{} // clause -> iface param name -> position (filled by engine when attaching iface clauses)

func ifaceParamBinding(fe *FuncEnc, fr *Frame, c *Clause) map[string]Term {
	out := map[string]Term{}
	m := ifaceBindings[c]
	off := 0
	if fe.fn.Signature.Recv() != nil {
		off = 1
		if len(fr.params) > 0 {
			out["self"] = fr.params[0]
			out["recv"] = fr.params[0]
		}
	}
	for name, pos := range m {
		if pos+off < len(fr.params) {
			out[name] = fr.params[pos+off]
		}
	}
	for i := off; i < len(fr.params); i++ {
		out[fmt.Sprintf("a%d", i-off)] = fr.params[i]
	}
	return out
}

// ifaceClausesFor: ensures clauses inherited by fn from interface contracts it implements.
func (eng *Engine) ifaceClausesFor(fn *ssa.Function) []*Clause {
	recv := fn.Signature.Recv()
	if recv == nil {
		return nil
	}
	var out []*Clause
	for _, key := range sortedKeys(eng.specs.ifaces) {
		fc := eng.specs.ifaces[key]
		parts := strings.Split(key, ".")
		if len(parts) < 3 || parts[len(parts)-1] != fn.Name() {
			continue
		}
		pkgPath := strings.Join(parts[:len(parts)-2], ".")
		p := eng.allPkgs[pkgPath]
		if p == nil || p.Types == nil {
			continue
		}
		obj, ok := p.Types.Scope().Lookup(parts[len(parts)-2]).(*types.TypeName)
		if !ok {
			continue
		}
		it, ok := obj.Type().Underlying().(*types.Interface)
		if !ok {
			continue
		}
		if !types.Implements(recv.Type(), it) {
			continue
		}
		// method signature of the interface for param names
		var msig *types.Signature
		for i := 0; i < it.NumMethods(); i++ {
			if it.Method(i).Name() == fn.Name() {
				msig = it.Method(i).Type().(*types.Signature)
			}
		}
		var inherited []*Clause
		inherited = append(inherited, fc.Ensures...)
		for _, rq := range fc.Requires {
			if !strings.HasPrefix(rq.Label, "config:") {
				inherited = append(inherited, rq)
			}
		}
		for _, en := range inherited {
			c := *en
			c.Label = "iface:" + parts[len(parts)-2] + "." + fn.Name() + ":" + en.Label
			cp := &c
			b := map[string]int{}
			if msig != nil {
				for i := 0; i < msig.Params().Len(); i++ {
					if n := msig.Params().At(i).Name(); n != "" && n != "_" {
						b[n] = i
					}
				}
			}
			for i, n := range fc.ParamNames {
				b[n] = i
			}
			ifaceBindings[cp] = b
			out = append(out, cp)
		}
	}
	return out
}

// requiresNotOfferedByIfaces: the interface methods of /repo that fn implements and whose contract lacks the precondition r.
func (eng *Engine) requiresNotOfferedByIfaces(fn *ssa.Function, r *Clause) []string {
	recv := fn.Signature.Recv()
	if recv == nil {
		return nil
	}
	var out []string
	for _, path := range sortedKeys(eng.allPkgs) {
		p := eng.allPkgs[path]
		if !strings.HasPrefix(path, modPath) || p.Types == nil {
			continue
		}
		sc := p.Types.Scope()
		for _, name := range sc.Names() {
			tn, ok := sc.Lookup(name).(*types.TypeName)
			if !ok {
				continue
			}
			it, ok := tn.Type().Underlying().(*types.Interface)
			if !ok || it.NumMethods() == 0 || !types.Implements(recv.Type(), it) {
				continue
			}
			has := false
			for i := 0; i < it.NumMethods(); i++ {
				if it.Method(i).Name() == fn.Name() {
					has = true
				}
			}
			if !has {
				continue
			}
			offered := false
			if fc := eng.specs.ifaces[path+"."+name+"."+fn.Name()]; fc != nil {
				for _, q := range fc.Requires {
					if q.Src == r.Src {
						offered = true
					}
				}
			}
			if !offered {
				out = append(out, shortPkg(path)+"."+name+"."+fn.Name())
			}
		}
	}
	return out
}

// encodeLemma: a closed formula over spec functions, literal regular languages and assumed axioms.
func (eng *Engine) encodeLemma(c *Clause, uses []string) *Oblig {
	fe := &FuncEnc{eng: eng, pre: &Prelude{declSet: map[string]bool{}}, sorts: newSorts(),
		heapSorts: map[string]Sort{}, heapStable: map[string]bool{}, protected: map[string]types.Type{}, opCount: map[string]int{},
		assumedCallees: map[string]bool{}, inlinedCallees: map[string]bool{}, usedContracts: map[string]bool{}, usedFns: map[*ssa.Function]bool{}, usedIfaces: map[string]bool{}, seqLen: map[string]string{}, linked: map[string]bool{}, storeReach: map[string][]string{}, cvSeen: map[string]bool{}}
	fe.top = &Frame{fe: fe, vals: map[ssa.Value]Term{}, tuples: map[ssa.Value][]Term{}}
	st := &State{heap: map[string]string{}, alive: "true"}
	env := &Env{fe: fe, st: st, old: st, vars: map[string]Term{}, calleeMode: true}
	if p := eng.allPkgs[c.Call]; p != nil {
		env.pkg = p.Types
	}
	for _, ax := range eng.specs.axioms {
		if contains(uses, ax.Label) {
			if f, err := env.evalBool(ax.Expr); err == nil {
				fe.emit("(assert " + f + ") ; axiom")
			}
		}
	}
	body := c.Expr
	// skolemise the outer universal quantifier so that a failing lemma comes with a witness
	for body.Op == "forall" {
		for _, b := range body.Binders {
			T, k := env.resolveType(b.Type)
			n := "p_" + b.Name
			fe.declConst(n, k)
			if k == SString {
				fe.assume(fmt.Sprintf("(str.in_re %s (re.* %s))", n, reAnyByte))
			}
			if T != nil {
				fe.assumeTypeInv(n, T)
			}
			env = env.with(b.Name, Term{n, k, T})
		}
		body = body.Args[0]
	}
	f, err := env.evalBool(body)
	o := &Oblig{Kind: "lemma", Props: c.Props, Label: c.Label, Reach: "true", Formula: f, Src: c.Src, Fn: shortPkg(c.Call), prel: fe.pre}
	if err != nil {
		o.Err = err.Error()
	}
	prop := strings.Join(c.Props, "+")
	o.ID = fmt.Sprintf("%s:%s:lemma:%s", prop, shortPkg(c.Call), c.Label)
	fe.pre.decls = append(fe.sorts.Decls(), fe.pre.decls...)
	return o
}

// freeVarReadOnly: the captured variable behind free variable i of closure fn is written only once, by the
// parent's initialising store in its entry block, and by no closure: its cell content is a constant of the activation.
func (eng *Engine) freeVarReadOnly(fn *ssa.Function, i int) bool {
	par := fn.Parent()
	if par == nil || i >= len(fn.FreeVars) {
		return false
	}
	var alloc *ssa.Alloc
	for _, b := range par.Blocks {
		for _, in := range b.Instrs {
			if mc, ok := in.(*ssa.MakeClosure); ok && mc.Fn == fn && i < len(mc.Bindings) {
				if a, ok := mc.Bindings[i].(*ssa.Alloc); ok {
					alloc = a
				} else if pfv, ok := mc.Bindings[i].(*ssa.FreeVar); ok {
					// nested closure: read-only iff the parent's view of the cell is read-only and the parent does not write it
					for j, f := range par.FreeVars {
						if f == pfv {
							return !freeVarWrittenOrLeaked(pfv, 0) && eng.freeVarReadOnly(par, j)
						}
					}
					return false
				} else {
					return false
				}
			}
		}
	}
	if alloc == nil || alloc.Referrers() == nil {
		return false
	}
	stores := 0
	for _, r := range *alloc.Referrers() {
		switch x := r.(type) {
		case *ssa.Store:
			if x.Addr != ssa.Value(alloc) {
				return false // address stored somewhere
			}
			if x.Block() != par.Blocks[0] {
				return false
			}
			stores++
		case *ssa.UnOp, *ssa.DebugRef:
		case *ssa.MakeClosure:
			for bi, bnd := range x.Bindings {
				if bnd == ssa.Value(alloc) {
					cf, ok := x.Fn.(*ssa.Function)
					if !ok || bi >= len(cf.FreeVars) || freeVarWrittenOrLeaked(cf.FreeVars[bi], 0) {
						return false
					}
				}
			}
		default:
			return false
		}
	}
	return stores <= 1
}

// ifaceNoModFor: does an interface contract that fn implements declare the method read-only (nomod)? Then the
// implementation inherits the frame obligation even if its own contract does not state it.
func (eng *Engine) ifaceNoModFor(fn *ssa.Function) (bool, []string) {
	recv := fn.Signature.Recv()
	if recv == nil {
		return false, nil
	}
	for _, key := range sortedKeys(eng.specs.ifaces) {
		fc := eng.specs.ifaces[key]
		if !(fc.NoMod || fc.Pure) || fc.Assumed {
			continue
		}
		parts := strings.Split(key, ".")
		if len(parts) < 3 || parts[len(parts)-1] != fn.Name() {
			continue
		}
		p := eng.allPkgs[strings.Join(parts[:len(parts)-2], ".")]
		if p == nil || p.Types == nil {
			continue
		}
		obj, ok := p.Types.Scope().Lookup(parts[len(parts)-2]).(*types.TypeName)
		if !ok {
			continue
		}
		it, ok := obj.Type().Underlying().(*types.Interface)
		if !ok || !types.Implements(recv.Type(), it) {
			continue
		}
		return true, fc.Props
	}
	return false, nil
}

// establishedBy: which contracts carry an ensures clause of the same config: label (option validation establishing what
// request handling assumes). Reported next to the assumption so an unestablished invariant is visible.
func (eng *Engine) establishedBy(label string) string {
	var by []string
	for _, key := range sortedKeys(eng.specs.funcs) {
		fc := eng.specs.funcs[key]
		for _, en := range fc.Ensures {
			if en.Label == label {
				by = append(by, fc.Name)
			}
		}
	}
	if len(by) == 0 {
		return " [no establishing ensures among the packages loaded for this check]"
	}
	return " [established by ensures[" + label + "] of " + strings.Join(by, ", ") + "]"
}

// notFresh: "" when v is nil or an object created by the enclosing activation (or returned by a callee whose contract
// says `fresh`); otherwise a description of the value that may be shared.
func (eng *Engine) notFresh(v ssa.Value, seen map[ssa.Value]bool) string {
	if seen[v] {
		return ""
	}
	seen[v] = true
	switch x := v.(type) {
	case *ssa.Alloc, *ssa.MakeMap, *ssa.MakeChan, *ssa.MakeClosure, *ssa.MakeSlice:
		return ""
	case *ssa.Const:
		if x.IsNil() {
			return ""
		}
		return "constant " + x.String()
	case *ssa.MakeInterface:
		return eng.notFresh(x.X, seen)
	case *ssa.ChangeInterface:
		return eng.notFresh(x.X, seen)
	case *ssa.ChangeType:
		return eng.notFresh(x.X, seen)
	case *ssa.Convert:
		return eng.notFresh(x.X, seen)
	case *ssa.Phi:
		for _, e := range x.Edges {
			if w := eng.notFresh(e, seen); w != "" {
				return w
			}
		}
		return ""
	case *ssa.Extract:
		if c, ok := x.Tuple.(*ssa.Call); ok && x.Index == 0 {
			return eng.notFreshCall(c)
		}
	case *ssa.Call:
		return eng.notFreshCall(x)
	}
	return describe(v, 0) + " (" + strings.TrimPrefix(fmt.Sprintf("%T", v), "*ssa.") + ")"
}

func (eng *Engine) notFreshCall(c *ssa.Call) string {
	cc := c.Common()
	if b, ok := cc.Value.(*ssa.Builtin); ok && (b.Name() == "append" || b.Name() == "new") {
		return ""
	}
	if f := cc.StaticCallee(); f != nil {
		if fc := eng.contractFor(f); fc != nil && fc.Fresh {
			return ""
		}
		return "result of " + fullName(f) + " (no `fresh` contract)"
	}
	return "result of a dynamic call"
}

// ifaceEnsuresFor: the ensures clauses fn inherits from interface-method contracts, with the interface method's parameter
// names bound to fn's own (cached).
func (eng *Engine) ifaceEnsuresFor(fn *ssa.Function) []*Clause {
	if eng.ifaceEnsCache == nil {
		eng.ifaceEnsCache = map[*ssa.Function][]*Clause{}
	}
	if c, ok := eng.ifaceEnsCache[fn]; ok {
		return c
	}
	var out []*Clause
	for _, c := range eng.ifaceClausesFor(fn) {
		if c.Kind == "ensures" {
			out = append(out, c)
		}
	}
	eng.ifaceEnsCache[fn] = out
	return out
}
