package main

// Go types -> SMT sorts, name mangling, and small SMT term helpers.

import (
	"fmt"
	"go/types"
	"sort"
	"strings"
)

// Sort is the textual SMT-LIB sort.
type Sort string

const (
	SBool   Sort = "Bool"
	SInt    Sort = "Int"
	SString Sort = "String"
	SReal   Sort = "Real"
	SSlice  Sort = "Slice"
)

// Term is an SMT expression together with its sort and (when known) Go type.
type Term struct {
	S string
	K Sort
	T types.Type // may be nil for spec-only terms
}

func (t Term) String() string { return t.S }

func mangle(s string) string {
	var b strings.Builder
	for _, r := range s {
		switch {
		case r >= 'a' && r <= 'z', r >= 'A' && r <= 'Z', r >= '0' && r <= '9', r == '_':
			b.WriteRune(r)
		case r == '.':
			b.WriteString("_")
		case r == '/':
			b.WriteString("_")
		case r == '*':
			b.WriteString("P")
		case r == '$':
			b.WriteString("_c")
		case r == '[':
			b.WriteString("L")
		case r == ']':
			b.WriteString("R")
		case r == '(' || r == ')' || r == ' ' || r == ',':
			// drop
		default:
			b.WriteString(fmt.Sprintf("_x%x", r))
		}
	}
	return b.String()
}

// shortPkg trims the module prefix of /repo packages so names stay readable.
func shortPkg(path string) string {
	const mod = "github.com/oauth2-proxy/oauth2-proxy/v7"
	if path == mod {
		return "main"
	}
	if strings.HasPrefix(path, mod+"/") {
		return strings.TrimPrefix(path, mod+"/")
	}
	return path
}

// Sorts keeps the struct datatypes that must be declared.
type Sorts struct {
	structs   map[string]*structSort // by sort name
	order     []string
	typeNames map[string]string // types.TypeString -> sort name
	usedNames map[string]bool
	tags      map[string]int // type tag per dynamic type (for interfaces)
	tagNames  []string
}

type structSort struct {
	name   string
	st     *types.Struct
	fields []Sort
	fnames []string
}

func newSorts() *Sorts {
	return &Sorts{structs: map[string]*structSort{}, typeNames: map[string]string{}, usedNames: map[string]bool{}, tags: map[string]int{}}
}

func isTimeTime(t types.Type) bool {
	if n, ok := t.(*types.Named); ok {
		o := n.Obj()
		return o.Pkg() != nil && o.Pkg().Path() == "time" && o.Name() == "Time"
	}
	return false
}

func isByteSlice(t types.Type) bool {
	if s, ok := t.Underlying().(*types.Slice); ok {
		if b, ok := s.Elem().Underlying().(*types.Basic); ok {
			return b.Kind() == types.Uint8
		}
	}
	return false
}

func isByteArray(t types.Type) bool {
	if s, ok := t.Underlying().(*types.Array); ok {
		if b, ok := s.Elem().Underlying().(*types.Basic); ok {
			return b.Kind() == types.Uint8
		}
	}
	return false
}

func typeKey(t types.Type) string {
	return types.TypeString(t, func(p *types.Package) string { return shortPkg(p.Path()) })
}

// SortOf maps a Go type to an SMT sort.
func (ss *Sorts) SortOf(t types.Type) Sort {
	if t == nil {
		return SInt
	}
	if isTimeTime(t) {
		return SInt
	}
	if tp, ok := t.(*types.TypeParam); ok {
		_ = tp
		return SInt
	}
	switch u := t.Underlying().(type) {
	case *types.Basic:
		switch {
		case u.Info()&types.IsBoolean != 0:
			return SBool
		case u.Info()&types.IsInteger != 0:
			return SInt
		case u.Info()&types.IsString != 0:
			return SString
		case u.Info()&types.IsFloat != 0:
			return SReal
		case u.Kind() == types.UnsafePointer:
			return SInt
		case u.Kind() == types.UntypedNil:
			return SInt
		}
		return SInt
	case *types.Pointer, *types.Map, *types.Chan, *types.Signature, *types.Interface:
		return SInt
	case *types.Slice:
		return SSlice
	case *types.Array:
		if isByteArray(t) {
			return SString
		}
		return Sort("(Array Int " + string(ss.SortOf(u.Elem())) + ")")
	case *types.Struct:
		return ss.structSortOf(t, u)
	case *types.Tuple:
		return SInt
	}
	return SInt
}

func (ss *Sorts) structSortOf(t types.Type, st *types.Struct) Sort {
	key := typeKey(t)
	if n, ok := ss.typeNames[key]; ok {
		return Sort(n)
	}
	base := "S_" + mangle(key)
	if len(base) > 60 {
		base = base[:60]
	}
	name := base
	for i := 2; ss.usedNames[name]; i++ {
		name = fmt.Sprintf("%s_%d", base, i)
	}
	ss.usedNames[name] = true
	ss.typeNames[key] = name
	s := &structSort{name: name, st: st}
	for i := 0; i < st.NumFields(); i++ {
		s.fields = append(s.fields, ss.SortOf(st.Field(i).Type()))
		s.fnames = append(s.fnames, fmt.Sprintf("%s_f%d", name, i))
	}
	ss.structs[name] = s
	ss.order = append(ss.order, name) // dependencies were declared first (recursive SortOf above)
	return Sort(name)
}

// Decls returns the datatype declarations in dependency order.
func (ss *Sorts) Decls() []string {
	var out []string
	for _, n := range ss.order {
		s := ss.structs[n]
		var fs []string
		for i := range s.fields {
			fs = append(fs, fmt.Sprintf("(%s %s)", s.fnames[i], s.fields[i]))
		}
		if len(fs) == 0 {
			out = append(out, fmt.Sprintf("(declare-datatypes ((%s 0)) (((mk_%s))))", n, n))
		} else {
			out = append(out, fmt.Sprintf("(declare-datatypes ((%s 0)) (((mk_%s %s))))", n, n, strings.Join(fs, " ")))
		}
	}
	return out
}

func (ss *Sorts) structInfo(k Sort) *structSort { return ss.structs[string(k)] }

// Tag returns a stable small integer per dynamic type (interface type tags).
func (ss *Sorts) Tag(t types.Type) int {
	k := typeKey(t)
	if v, ok := ss.tags[k]; ok {
		return v
	}
	v := len(ss.tags) + 1
	ss.tags[k] = v
	ss.tagNames = append(ss.tagNames, k)
	return v
}

// Zero returns the zero value of a sort.
func (ss *Sorts) Zero(k Sort) string {
	switch k {
	case SBool:
		return "false"
	case SInt:
		return "0"
	case SString:
		return "\"\""
	case SReal:
		return "0.0"
	case SSlice:
		return "(mk_slice 0 0 0 0)"
	}
	if s := ss.structInfo(k); s != nil {
		if len(s.fields) == 0 {
			return "mk_" + s.name
		}
		var parts []string
		for _, f := range s.fields {
			parts = append(parts, ss.Zero(f))
		}
		return "(mk_" + s.name + " " + strings.Join(parts, " ") + ")"
	}
	if strings.HasPrefix(string(k), "(Array Int ") {
		el := Sort(strings.TrimSuffix(strings.TrimPrefix(string(k), "(Array Int "), ")"))
		return fmt.Sprintf("((as const %s) %s)", k, ss.Zero(el))
	}
	return "0"
}

// ZeroOfType handles byte arrays (a string of N zero bytes is left abstract: any string of len N).
func (ss *Sorts) ZeroOfType(t types.Type) string { return ss.Zero(ss.SortOf(t)) }

// ---- SMT helpers ----

func smtStr(s string) string {
	var b strings.Builder
	b.WriteByte('"')
	for i := 0; i < len(s); i++ {
		c := s[i]
		switch {
		case c == '"':
			b.WriteString("\"\"")
		case c >= 0x20 && c < 0x7f && c != '\\':
			b.WriteByte(c)
		default:
			b.WriteString(fmt.Sprintf("\\u{%x}", c))
		}
	}
	b.WriteByte('"')
	return b.String()
}

func smtInt(v int64) string {
	if v < 0 {
		return fmt.Sprintf("(- %d)", -v)
	}
	return fmt.Sprintf("%d", v)
}

func sAnd(xs ...string) string {
	var ys []string
	for _, x := range xs {
		if x == "true" || x == "" {
			continue
		}
		if x == "false" {
			return "false"
		}
		ys = append(ys, x)
	}
	switch len(ys) {
	case 0:
		return "true"
	case 1:
		return ys[0]
	}
	return "(and " + strings.Join(ys, " ") + ")"
}

func sOr(xs ...string) string {
	var ys []string
	for _, x := range xs {
		if x == "false" || x == "" {
			continue
		}
		if x == "true" {
			return "true"
		}
		ys = append(ys, x)
	}
	switch len(ys) {
	case 0:
		return "false"
	case 1:
		return ys[0]
	}
	return "(or " + strings.Join(ys, " ") + ")"
}

func sNot(x string) string {
	if x == "true" {
		return "false"
	}
	if x == "false" {
		return "true"
	}
	if strings.HasPrefix(x, "(not ") && balanced(x[5:len(x)-1]) {
		return x[5 : len(x)-1]
	}
	return "(not " + x + ")"
}

func balanced(s string) bool {
	d := 0
	inStr := false
	for i := 0; i < len(s); i++ {
		c := s[i]
		if c == '"' {
			inStr = !inStr
		}
		if inStr {
			continue
		}
		if c == '(' {
			d++
		} else if c == ')' {
			d--
			if d < 0 {
				return false
			}
		}
	}
	return d == 0
}

func sImp(a, b string) string {
	if a == "true" {
		return b
	}
	if a == "false" || b == "true" {
		return "true"
	}
	return "(=> " + a + " " + b + ")"
}

func sIte(c, a, b string) string {
	if c == "true" {
		return a
	}
	if c == "false" {
		return b
	}
	if a == b {
		return a
	}
	return "(ite " + c + " " + a + " " + b + ")"
}

func sEq(a, b string) string { return "(= " + a + " " + b + ")" }

func sortedKeys[M ~map[string]V, V any](m M) []string {
	ks := make([]string, 0, len(m))
	for k := range m {
		ks = append(ks, k)
	}
	sort.Strings(ks)
	return ks
}

// intRange returns the range constraint for an integer-typed value, or "".
func intRange(t types.Type, v string) string {
	if t == nil {
		return ""
	}
	if isTimeTime(t) {
		return ""
	}
	b, ok := t.Underlying().(*types.Basic)
	if !ok || b.Info()&types.IsInteger == 0 {
		return ""
	}
	switch b.Kind() {
	case types.Int8:
		return fmt.Sprintf("(and (<= (- 128) %s) (<= %s 127))", v, v)
	case types.Int16:
		return fmt.Sprintf("(and (<= (- 32768) %s) (<= %s 32767))", v, v)
	case types.Int32:
		return fmt.Sprintf("(and (<= (- 2147483648) %s) (<= %s 2147483647))", v, v)
	case types.Int, types.Int64:
		return fmt.Sprintf("(and (<= (- 9223372036854775808) %s) (<= %s 9223372036854775807))", v, v)
	case types.Uint8:
		return fmt.Sprintf("(and (<= 0 %s) (<= %s 255))", v, v)
	case types.Uint16:
		return fmt.Sprintf("(and (<= 0 %s) (<= %s 65535))", v, v)
	case types.Uint32:
		return fmt.Sprintf("(and (<= 0 %s) (<= %s 4294967295))", v, v)
	case types.Uint, types.Uint64, types.Uintptr:
		return fmt.Sprintf("(and (<= 0 %s) (<= %s 18446744073709551615))", v, v)
	}
	return ""
}
