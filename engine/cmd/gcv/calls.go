package main

// Call modelling: builtins, library models, contracts, inlining, havoc.

import (
	"fmt"
	"go/types"
	"sort"
	"strings"

	"golang.org/x/tools/go/ssa"
)

const maxInlineInstrs = 60

func (fe *FuncEnc) maxInlineDepth() int {
	if fe.fc != nil && fe.fc.Shallow {
		return 0
	}
	return 2
}

// callNames: the names a call site answers to in specs.
func callNames(c ssa.CallInstruction) []string {
	cc := c.Common()
	var ns []string
	add := func(s string) {
		if s != "" && !contains(ns, s) {
			ns = append(ns, s)
		}
	}
	if cc.IsInvoke() {
		add(cc.Method.Name())
		if n, ok := cc.Value.Type().(*types.Named); ok {
			add(n.Obj().Name() + "." + cc.Method.Name())
			if n.Obj().Pkg() != nil {
				add(n.Obj().Pkg().Name() + "." + n.Obj().Name() + "." + cc.Method.Name())
			}
		}
		return ns
	}
	if f := cc.StaticCallee(); f != nil {
		rn := relName(f)
		add(rn)
		add(f.Name())
		if p := fnPkgPath(f); p != "" {
			pn := p
			if i := strings.LastIndex(p, "/"); i >= 0 {
				pn = p[i+1:]
			}
			if f.Pkg != nil {
				pn = f.Pkg.Pkg.Name()
			}
			add(pn + "." + rn)
			add(pn + "." + f.Name())
		}
		return ns
	}
	if b, ok := cc.Value.(*ssa.Builtin); ok {
		add(b.Name())
		return ns
	}
	// dynamic call: name of the field / variable holding the function
	add(funcValueName(cc.Value))
	return ns
}

func debugName(v ssa.Value) string {
	if refs := v.Referrers(); refs != nil {
		for _, r := range *refs {
			if d, ok := r.(*ssa.DebugRef); ok && d.X == v && !d.IsAddr && d.Object() != nil {
				return d.Object().Name()
			}
		}
	}
	return ""
}

func funcValueName(v ssa.Value) string {
	if n := debugName(v); n != "" {
		return n
	}
	switch x := v.(type) {
	case *ssa.UnOp:
		if fa, ok := x.X.(*ssa.FieldAddr); ok {
			st := fa.X.Type().Underlying().(*types.Pointer).Elem().Underlying().(*types.Struct)
			return st.Field(fa.Field).Name()
		}
		if fv, ok := x.X.(*ssa.FreeVar); ok {
			return fv.Name()
		}
		if g, ok := x.X.(*ssa.Global); ok {
			return g.Name()
		}
		return funcValueName(x.X)
	case *ssa.Parameter:
		return x.Name()
	case *ssa.FreeVar:
		return x.Name()
	case *ssa.Field:
		st := x.X.Type().Underlying().(*types.Struct)
		return st.Field(x.Field).Name()
	case *ssa.Phi:
		return x.Comment
	case *ssa.Extract:
		return describe(x, 0)
	case *ssa.MakeClosure:
		return x.Fn.Name()
	case *ssa.ChangeType:
		return funcValueName(x.X)
	case *ssa.Call:
		return callShort(x) + "()"
	}
	return ""
}

// sortedCalls: call sites in source order (position, then encoding order).
func (fe *FuncEnc) sortedCalls() []*CallSite {
	cs := append([]*CallSite{}, fe.calls...)
	sort.SliceStable(cs, func(i, j int) bool {
		pi, pj := cs[i].instr.Pos(), cs[j].instr.Pos()
		if pi == pj || pi == 0 || pj == 0 {
			return false
		}
		return pi < pj
	})
	return cs
}

// matchCalls: call sites answering to name — those of the function itself; only when it has none, those of callees that
// were inlined (so extracting a helper does not orphan a clause about a call that moved into it).
func (fe *FuncEnc) matchCalls(name string) []*CallSite {
	var own, inl []*CallSite
	for _, cs := range fe.sortedCalls() {
		if !contains(cs.names, name) {
			continue
		}
		if cs.depth == 0 {
			own = append(own, cs)
		} else {
			inl = append(inl, cs)
		}
	}
	if len(own) > 0 {
		return own
	}
	return inl
}

func (fe *FuncEnc) findCall(target string) (*CallSite, error) {
	name := target
	ord := -1
	if i := strings.LastIndex(target, "#"); i >= 0 {
		fmt.Sscanf(target[i+1:], "%d", &ord)
		name = target[:i]
	}
	ms := fe.matchCalls(name)
	if len(ms) == 0 {
		return nil, fmt.Errorf("no call to %s in %s", name, relName(fe.fn))
	}
	if ord >= 0 {
		if ord >= len(ms) {
			return nil, fmt.Errorf("no call %s (only %d calls to %s)", target, len(ms), name)
		}
		return ms[ord], nil
	}
	if len(ms) > 1 {
		return nil, fmt.Errorf("call reference %s is ambiguous (%d sites); use %s#k", name, len(ms), name)
	}
	return ms[0], nil
}

func (fe *FuncEnc) findCalls(target string) ([]*CallSite, error) {
	if strings.Contains(target, "#") {
		cs, err := fe.findCall(target)
		if err != nil {
			return nil, err
		}
		return []*CallSite{cs}, nil
	}
	ms := fe.matchCalls(target)
	if len(ms) == 0 {
		return nil, fmt.Errorf("no call to %s in %s", target, relName(fe.fn))
	}
	return ms, nil
}

// resolveCallee finds what a call instruction calls, as far as statically known.
type calleeInfo struct {
	fn       *ssa.Function // static or closure function (may be nil)
	bindings []ssa.Value   // closure bindings
	contract *FuncContract
	iface    bool
	name     string // display / key
	builtin  *ssa.Builtin
}

func (fr *Frame) resolveCallee(c ssa.CallInstruction) calleeInfo {
	fe := fr.fe
	cc := c.Common()
	if cc.IsInvoke() {
		key := ifaceKey(cc.Value.Type(), cc.Method)
		ci := calleeInfo{iface: true, name: key}
		if fc, ok := fe.eng.specs.ifaces[key]; ok {
			ci.contract = fc
		}
		return ci
	}
	if b, ok := cc.Value.(*ssa.Builtin); ok {
		return calleeInfo{builtin: b, name: b.Name()}
	}
	var fn *ssa.Function
	var bindings []ssa.Value
	switch v := cc.Value.(type) {
	case *ssa.Function:
		fn = v
	case *ssa.MakeClosure:
		fn = v.Fn.(*ssa.Function)
		bindings = v.Bindings
	}
	if fn == nil {
		// named dynamic call with a funcval contract?
		n := funcValueName(cc.Value)
		ci := calleeInfo{name: n}
		if n != "" {
			if fc := fe.eng.specs.funcs[fnPkgPath(fr.fn)+"::funcval "+n]; fc != nil {
				ci.contract = fc
			}
		}
		return ci
	}
	ci := calleeInfo{fn: fn, bindings: bindings, name: fullName(fn)}
	ci.contract = fe.eng.contractFor(fn)
	// a method that implements an interface-method contract owes (and, as a callee, offers) that contract's clauses too:
	// they are discharged for it wherever the interface contract is in play
	if fe.eng.inRepo(fn) && fn.Signature.Recv() != nil && (ci.contract == nil || !ci.contract.Assumed) {
		if extra := fe.eng.ifaceEnsuresFor(fn); len(extra) > 0 {
			var cp FuncContract
			if ci.contract != nil {
				cp = *ci.contract
				cp.Ensures = append(append([]*Clause{}, cp.Ensures...), extra...)
			} else if len(fn.Blocks) > 0 && !fr.canInline(fn) {
				cp = FuncContract{Pkg: fnPkgPath(fn), Name: relName(fn), LoopInv: map[int][]*Clause{}, Nilable: map[string]bool{}, Ensures: extra}
			} else {
				return ci
			}
			ci.contract = &cp
		}
	}
	return ci
}

func ifaceKey(t types.Type, m *types.Func) string {
	if n, ok := t.(*types.Named); ok {
		if n.Obj().Pkg() != nil {
			return n.Obj().Pkg().Path() + "." + n.Obj().Name() + "." + m.Name()
		}
		return n.Obj().Name() + "." + m.Name() // error.Error
	}
	return "interface." + m.Name()
}

func (eng *Engine) contractFor(fn *ssa.Function) *FuncContract {
	p := fnPkgPath(fn)
	if fc, ok := eng.specs.funcs[p+"::"+relName(fn)]; ok {
		return fc
	}
	if fc, ok := eng.specs.funcs[fullName(fn)]; ok {
		return fc
	}
	// generic instantiation: try origin
	if o := fn.Origin(); o != nil && o != fn {
		return eng.contractFor(o)
	}
	if d, ok := eng.specs.pkgDefault[p]; ok {
		return d
	}
	return nil
}

func (fr *Frame) encodeCall(c *ssa.Call, st *State) {
	fe := fr.fe
	cc := c.Common()
	var args []Term
	var recv *Term
	if cc.IsInvoke() {
		r := fr.val(cc.Value)
		recv = &r
	}
	for _, a := range cc.Args {
		args = append(args, fr.val(a))
	}
	var cs *CallSite
	{
		cs = &CallSite{instr: c, names: callNames(c), reach: st.alive, args: args, recv: recv, pre: st.clone(), block: c.Block(), depth: fr.depth, nline: len(fe.pre.body)}
		if !cc.IsInvoke() && cc.StaticCallee() != nil && cc.StaticCallee().Signature.Recv() != nil && len(args) > 0 {
			cs.recv = &args[0]
		}
		fe.calls = append(fe.calls, cs)
	}
	rets := fr.doCall(c, st, args, recv)
	// bind results
	tup, isTuple := c.Type().(*types.Tuple)
	if isTuple {
		if tup.Len() > 0 {
			fr.tuples[c] = rets
		}
	} else if len(rets) == 1 {
		fr.vals[c] = rets[0]
	}
	if cs != nil {
		cs.rets = rets
		cs.encoded = true
	}
}

func resultTypes(c ssa.CallInstruction) []types.Type {
	sig := c.Common().Signature()
	var ts []types.Type
	for i := 0; i < sig.Results().Len(); i++ {
		ts = append(ts, sig.Results().At(i).Type())
	}
	return ts
}

func (fr *Frame) havocResults(c ssa.CallInstruction, base string) []Term {
	var rets []Term
	for i, t := range resultTypes(c) {
		rets = append(rets, fr.fe.havocVal(fmt.Sprintf("%s%s_r%d", fr.prefix, base, i), t))
	}
	return rets
}

// doCall models the call's effect on st and returns its results.
func (fr *Frame) doCall(c ssa.CallInstruction, st *State, args []Term, recv *Term) []Term {
	fe := fr.fe
	cc := c.Common()
	ci := fr.resolveCallee(c)
	base := mangle(callShort(c))
	if len(base) > 40 {
		base = base[:40]
	}
	if ci.builtin != nil {
		return fr.goBuiltin(c, ci.builtin, st, args)
	}
	if !cc.IsInvoke() && ci.fn == nil && ci.contract == nil {
		// dynamic call of unknown function value
		if !fr.nonNilByConstruction(cc.Value) {
			fr.safety(st, c, "nil-func", describe(cc.Value, 0), fmt.Sprintf("(not (= %s 0))", fr.val(cc.Value).S))
		}
	}
	if cc.IsInvoke() && !fr.nonNilByConstruction(cc.Value) {
		fr.safety(st, c, "nil-iface", describe(cc.Value, 0)+"."+cc.Method.Name(), fmt.Sprintf("(not (= %s 0))", recv.S))
	}
	if ci.fn != nil {
		if rets, ok := fr.libModel(c, ci.fn, st, args); ok {
			return rets
		}
	}
	// Every function of /repo is verified under the assumption that its pointer, interface, function and map parameters
	// are non-nil (unless its contract says `nilable p`); that assumption is an obligation of each call site.
	if ci.fn != nil && fe.eng.inRepo(ci.fn) && len(ci.fn.Blocks) > 0 && len(ci.bindings) == 0 && len(args) == len(ci.fn.Params) {
		for i, p := range ci.fn.Params {
			if ci.contract != nil && ci.contract.Nilable[p.Name()] {
				continue
			}
			switch p.Type().Underlying().(type) {
			case *types.Pointer, *types.Interface, *types.Signature:
			default:
				continue // (nil maps may be read; a callee that writes one has its own nil-map-write obligation)
			}
			if args[i].K != SInt || fr.nonNilByConstruction(cc.Args[i]) {
				continue
			}
			pn := p.Name()
			if pn == "" {
				pn = fmt.Sprintf("arg%d", i)
			}
			fr.obligationOnly(st, c, "nil-arg", callShort(c)+"("+pn+")", fmt.Sprintf("(not (= %s 0))", args[i].S))
		}
	}
	// A library method with a pointer receiver is taken to dereference it (regexp, url.URL, http.Request, … all do): a nil
	// receiver is a panic inside the library. Obligation of the call site, never assumed afterwards.
	if ci.fn != nil && !fe.eng.inRepo(ci.fn) && ci.fn.Signature.Recv() != nil && len(args) > 0 && len(ci.bindings) == 0 {
		if _, isPtr := ci.fn.Signature.Recv().Type().Underlying().(*types.Pointer); isPtr && args[0].K == SInt && !fr.nonNilByConstruction(cc.Args[0]) {
			if ci.contract == nil || !(ci.contract.Nilable["recv"] || (len(ci.contract.ParamNames) > 0 && ci.contract.Nilable[ci.contract.ParamNames[0]])) {
				fr.obligationOnly(st, c, "nil-recv", callShort(c), fmt.Sprintf("(not (= %s 0))", args[0].S))
			}
		}
	}
	if ci.contract != nil {
		fe.usedContracts[ci.name] = true
		if ci.fn != nil {
			fe.usedFns[ci.fn] = true
		} else if ci.iface {
			fe.usedIfaces[ci.name] = true
		}
		return fr.applyContract(c, ci, st, args, recv, base)
	}
	if ci.fn != nil && fe.eng.inRepo(ci.fn) && fr.canInline(ci.fn) {
		if rets, ok := fr.inline(c, ci, st, args); ok {
			fe.inlinedCallees[fullName(ci.fn)] = true
			return rets
		}
	}
	// unknown: havoc
	fr.frameCall(st, c, ci.name, nil)
	fe.assumedCallees[ci.name+" (unknown: heap havoc, arbitrary results)"] = true
	fe.havocHeaps(st, "call "+ci.name, nil)
	return fr.havocResults(c, base)
}

func (fr *Frame) canInline(fn *ssa.Function) bool {
	if len(fn.Blocks) == 0 {
		return false
	}
	if fr.depth >= fr.fe.maxInlineDepth() {
		return false
	}
	n := 0
	for _, b := range fn.Blocks {
		n += len(b.Instrs)
		for _, in := range b.Instrs {
			switch in.(type) {
			case *ssa.Go, *ssa.Select:
				return false
			}
		}
	}
	if n > maxInlineInstrs {
		return false
	}
	for f := fr; f != nil; f = f.parentFrame() {
		if f.fn == fn {
			return false
		}
	}
	return true
}

var frameParents = map[*Frame]*Frame{}

func (fr *Frame) parentFrame() *Frame { return frameParents[fr] }

func (fr *Frame) inline(c ssa.CallInstruction, ci calleeInfo, st *State, args []Term) ([]Term, bool) {
	fe := fr.fe
	fn := ci.fn
	fe.ctr++
	sub := &Frame{fe: fe, fn: fn, prefix: fmt.Sprintf("i%d_", fe.ctr), vals: map[ssa.Value]Term{}, tuples: map[ssa.Value][]Term{},
		closures: map[ssa.Value]*ssa.MakeClosure{}, depth: fr.depth + 1}
	frameParents[sub] = fr
	defer delete(frameParents, sub)
	if len(args) != len(fn.Params) {
		return nil, false
	}
	for i, p := range fn.Params {
		sub.vals[p] = args[i]
		sub.params = append(sub.params, args[i])
	}
	for i, fv := range fn.FreeVars {
		var t Term
		if i < len(ci.bindings) {
			t = fr.val(ci.bindings[i])
		} else {
			t = fe.havocVal(sub.prefix+"fv_"+mangle(fv.Name()), fv.Type())
		}
		sub.vals[fv] = t
		sub.free = append(sub.free, t)
	}
	sub.init = st.clone()
	exits := sub.encode(st)
	// carry over closures created in callee? not needed
	if len(exits) == 0 {
		// callee never returns (panics / infinite loop)
		st.alive = "false"
		return fr.havocResults(c, "noret"), true
	}
	var conds []string
	for _, e := range exits {
		conds = append(conds, e.cond)
	}
	alive := fe.define(fe.fresh(sub.prefix+"ret"), SBool, sOr(conds...))
	// results
	var rets []Term
	rts := resultTypes(c)
	for i, t := range rts {
		expr := exits[len(exits)-1].results[i].S
		for j := len(exits) - 2; j >= 0; j-- {
			expr = sIte(exits[j].cond, exits[j].results[i].S, expr)
		}
		k := fe.sorts.SortOf(t)
		n := fe.define(fe.fresh(sub.prefix+fmt.Sprintf("res%d", i)), k, expr)
		rets = append(rets, Term{n, k, t})
	}
	// heaps
	for _, h := range sortedKeys(fe.heapSorts) {
		first := fe.hget(exits[0].st, h)
		same := true
		for _, e := range exits[1:] {
			if fe.hget(e.st, h) != first {
				same = false
			}
		}
		if same {
			st.heap[h] = first
			continue
		}
		expr := fe.hget(exits[len(exits)-1].st, h)
		for j := len(exits) - 2; j >= 0; j-- {
			expr = sIte(exits[j].cond, fe.hget(exits[j].st, h), expr)
		}
		n := fe.fresh(h + "_im")
		fe.define(n, fe.heapSorts[h], expr)
		st.heap[h] = n
	}
	st.alive = alive
	return rets, true
}

// contractEnv builds the environment in which a callee's clauses are evaluated at a call site.
func (fr *Frame) contractEnv(c ssa.CallInstruction, ci calleeInfo, st *State, pre *State, args []Term, recv *Term, rets []Term) *Env {
	fe := fr.fe
	fc := ci.contract
	env := &Env{fe: fe, fr: fr, st: st, old: pre, vars: map[string]Term{}, calleeMode: true}
	sig := c.Common().Signature()
	if ci.fn != nil {
		for f := ci.fn; f != nil; f = f.Parent() {
			if f.Pkg != nil {
				env.pkg = f.Pkg.Pkg
				break
			}
		}
		if env.pkg == nil && ci.fn.Object() != nil {
			env.pkg = ci.fn.Object().Pkg()
		}
		for i, p := range ci.fn.Params {
			if i < len(args) {
				env.vars[p.Name()] = args[i]
				env.vars[fmt.Sprintf("a%d", i)] = args[i]
			}
		}
		for i, fv := range ci.fn.FreeVars {
			if i < len(ci.bindings) {
				env.vars[fv.Name()] = fr.val(ci.bindings[i])
			}
		}
	} else {
		if recv != nil {
			env.vars["self"] = *recv
			env.vars["recv"] = *recv
		} else if !c.Common().IsInvoke() {
			// dynamic call: the function value itself
			env.vars["self"] = fr.val(c.Common().Value)
		}
		for i := 0; i < sig.Params().Len() && i < len(args); i++ {
			if n := sig.Params().At(i).Name(); n != "" && n != "_" {
				env.vars[n] = args[i]
			}
			env.vars[fmt.Sprintf("a%d", i)] = args[i]
		}
		if ci.iface {
			if p := fe.eng.pkgOfKey(ci.name); p != nil {
				env.pkg = p
			}
		} else {
			for f := fr.fn; f != nil; f = f.Parent() {
				if f.Pkg != nil {
					env.pkg = f.Pkg.Pkg
					break
				}
			}
		}
	}
	if fc != nil {
		off := 0
		if ci.fn != nil && ci.fn.Signature.Recv() != nil {
			off = 0 // ParamNames include the receiver first if given
		}
		for i, n := range fc.ParamNames {
			if i+off < len(args) {
				env.vars[n] = args[i+off]
			}
		}
	}
	bindResults(env, sig, rets)
	return env
}

func bindResults(env *Env, sig *types.Signature, rets []Term) {
	for i, r := range rets {
		env.vars[fmt.Sprintf("ret%d", i)] = r
		if i < sig.Results().Len() {
			if n := sig.Results().At(i).Name(); n != "" && n != "_" {
				env.vars[n] = r
			}
		}
	}
	if len(rets) >= 1 {
		if _, taken := env.vars["result"]; !taken {
			env.vars["result"] = rets[0]
		}
		last := rets[len(rets)-1]
		if last.T != nil && last.T.String() == "error" {
			if _, taken := env.vars["err"]; !taken {
				env.vars["err"] = last
			}
		}
	}
}

func (fr *Frame) applyContract(c ssa.CallInstruction, ci calleeInfo, st *State, args []Term, recv *Term, base string) []Term {
	fe := fr.fe
	fc := ci.contract
	pre := st.clone()
	// requires
	if len(fc.Requires) > 0 {
		env := fr.contractEnv(c, ci, st, pre, args, recv, nil)
		for _, r := range fc.Requires {
			if strings.HasPrefix(r.Label, "config:") {
				continue // configuration invariant: established by option validation, recorded as an assumption
			}
			f, err := env.evalBool(r.Expr)
			if fr.depth == 0 {
				props := r.Props
				if fe.fc != nil && len(fe.fc.Props) > 0 {
					props = unionProps(props, fe.fc.Props)
				}
				label := "call:" + callShort(c) + ":" + r.Label
				fe.opCount[label]++
				if n := fe.opCount[label]; n > 1 {
					label = fmt.Sprintf("%s#%d", label, n-1)
				}
				fe.addOblig(&Oblig{Kind: "callpre", Props: props, Label: label, Reach: st.alive, Formula: f, Src: r.Src, Pos: fr.pos(c.Pos())}, err)
			}
			if err == nil {
				an := fe.define(fe.fresh(fr.prefix+"alive"), SBool, sAnd(st.alive, f))
				st.alive = an
			}
		}
	}
	// frame
	switch {
	case fc.NoMod || fc.Pure:
	case fc.Modifies != nil:
		names := map[string]bool{}
		envM := fr.contractEnv(c, ci, st, pre, args, recv, nil)
		var frameObjs []string
		general := false
		for _, m := range fc.Modifies {
			// object-specific frame: "<param>.<field>" only changes that object's entry
			if i := strings.Index(m, "."); i > 0 {
				if obj, ok := envM.vars[m[:i]]; ok && obj.K == SInt {
					for _, h := range fe.heapsMatching(objFieldPattern(obj, m[i+1:]), ci) {
						old := fe.hget(st, h)
						fv := fe.fresh(h + "_o")
						es := strings.TrimSuffix(strings.TrimPrefix(string(fe.heapSorts[h]), "(Array Int "), ")")
						fe.declConst(fv, Sort(es))
						fe.hset(st, h, fmt.Sprintf("(store %s %s %s)", old, obj.S, fv))
					}
					frameObjs = append(frameObjs, obj.S)
					continue
				}
			}
			hs := fe.heapsMatching(m, ci)
			for _, h := range hs {
				names[h] = true
			}
			if !(fc.Fresh && strings.HasPrefix(m, "ghost:")) {
				general = true
			}
		}
		if len(names) > 0 {
			fe.havocHeaps(st, "call "+ci.name, func(n string) bool { return names[n] })
		}
		if general {
			var gm []string
			for _, m := range fc.Modifies {
				if m == "cells" || m == "elems" || m == "maps" || m == "bytes" || strings.HasPrefix(m, "ghost:") || !strings.Contains(m, ".") {
					gm = append(gm, m)
				} else if _, isParam := envM.vars[m[:strings.Index(m, ".")]]; !isParam {
					gm = append(gm, m) // Type.field pattern
				}
			}
			if len(frameObjs) > 0 {
				gm = nil // mixed frames: keep the conservative obligation
			}
			fr.frameCallMods(st, c, ci.name, nil, gm)
		} else if len(frameObjs) > 0 {
			fr.frameCall(st, c, ci.name, frameObjs)
		}
	default:
		fr.frameCall(st, c, ci.name, nil)
		fe.havocHeaps(st, "call "+ci.name, nil)
	}
	// results
	var rets []Term
	rts := resultTypes(c)
	if fc.Pure {
		all := args
		if recv != nil {
			all = append([]Term{*recv}, args...)
		}
		rets = fe.pureApp(st, ci.name, all, rts)
	} else {
		rets = fr.havocResults(c, base)
		if fc.Fresh && len(rets) > 0 && rets[0].K == SInt {
			r := fe.newRef(fr.prefix + base + "_fresh")
			rets[0] = Term{r, SInt, rets[0].T}
		}
	}
	// ensures
	env := fr.contractEnv(c, ci, st, pre, args, recv, rets)
	for _, en := range fc.Ensures {
		if hasCallref(en.Expr) || mentionsGhost(en.Expr, fc) {
			continue // clause about the callee's internal calls / ghost state: meaningful only when verifying the callee itself
		}
		f, err := env.evalBool(en.Expr)
		if err != nil {
			fe.note("contract of %s: %v", ci.name, err)
			continue
		}
		fe.assume(sImp(st.alive, f))
	}
	if fc.Assumed {
		fe.assumedCallees[ci.name+" (assumed library contract)"] = true
	} else if fc.Trusted {
		fe.assumedCallees[ci.name+" (trusted contract, body not verified)"] = true
	} else if strings.HasPrefix(fc.Name, "funcval ") {
		fe.assumedCallees[fc.Name+" in "+fc.Pkg+" (assumed contract of a function value: whatever is stored there is not checked against it)"] = true
	}
	return rets
}

func hasCallref(e *SExpr) bool {
	if e == nil {
		return false
	}
	if e.Op == "callref" {
		return true
	}
	if e.Op == "call" && e.Name == "stored" {
		return true // stored("T.f") speaks about the stores of the function that carries the clause, like a call reference
	}
	for _, a := range e.Args {
		if hasCallref(a) {
			return true
		}
	}
	return false
}

func mentionsGhost(e *SExpr, fc *FuncContract) bool {
	if e == nil || fc.LoopGhost == nil {
		return false
	}
	if e.Op == "ident" {
		for _, gs := range fc.LoopGhost {
			for _, g := range gs {
				if g.Name == e.Name {
					return true
				}
			}
		}
	}
	for _, a := range e.Args {
		if mentionsGhost(a, fc) {
			return true
		}
	}
	return false
}

func unionProps(a, b []string) []string {
	out := append([]string{}, a...)
	for _, x := range b {
		if !contains(out, x) {
			out = append(out, x)
		}
	}
	return out
}

// objFieldPattern: pattern for heapsMatching for field f of the object term obj (ghost fields or struct fields).
func objFieldPattern(obj Term, f string) string {
	if st, named, isPtr := derefStruct(obj.T); st != nil && isPtr {
		tn := typeKey(named)
		for i := 0; i < st.NumFields(); i++ {
			if st.Field(i).Name() == f {
				return tn + "." + f
			}
		}
	}
	return "ghost:" + f
}

// heapsMatching: "Type.field", "Type.*", "ghost:name", "bytes", "*" -> heap names
func (fe *FuncEnc) heapsMatching(m string, ci calleeInfo) []string {
	var out []string
	if m == "*" {
		return sortedKeys(fe.heapSorts)
	}
	if strings.HasPrefix(m, "ghost:") {
		if h, _, ok := fe.ghostHeap(strings.TrimPrefix(m, "ghost:")); ok {
			out = append(out, h)
		}
		return out
	}
	if m == "maps" {
		for _, h := range sortedKeys(fe.heapSorts) {
			if strings.HasPrefix(h, "HM") {
				out = append(out, h)
			}
		}
		if len(out) == 0 {
			fe.heapDecl("HMlen", "(Array Int Int)")
			out = append(out, "HMlen")
		}
		return out
	}
	if m == "bytes" {
		fe.heapDecl("HB", "(Array Int String)")
		return []string{"HB"}
	}
	if m == "cells" || m == "elems" {
		// cells: memory reached through plain pointers (*T cells); elems: slice/array elements
		pre := map[string]string{"cells": "HP_", "elems": "HS_"}[m]
		for _, h := range sortedKeys(fe.heapSorts) {
			if strings.HasPrefix(h, pre) {
				out = append(out, h)
			}
		}
		return out
	}
	parts := strings.Split(m, ".")
	if len(parts) < 2 {
		return nil
	}
	field := parts[len(parts)-1]
	tn := strings.Join(parts[:len(parts)-1], ".")
	for _, h := range sortedKeys(fe.heapSorts) {
		if !strings.HasPrefix(h, "H_") {
			continue
		}
		// heap names are H_<mangled type>_<field>
		if field == "*" {
			if strings.Contains(h, "_"+mangle(tn)+"_") || strings.HasSuffix(strings.TrimPrefix(h, "H_"), mangle(tn)) {
				out = append(out, h)
			}
		} else if strings.HasSuffix(h, "_"+mangle(tn)+"_"+mangle(field)) || h == "H_"+mangle(tn)+"_"+mangle(field) {
			out = append(out, h)
		}
	}
	return out
}

// pureApp: deterministic results as uninterpreted functions of the argument values/contents.
func (fe *FuncEnc) pureApp(st *State, name string, args []Term, rts []types.Type) []Term {
	ps, as := fe.pureArgs(st, args)
	fname := pureFuncName(name)
	app := func(suffix string, k Sort) string {
		n := fname + suffix
		fe.pre.decl(fmt.Sprintf("(declare-fun %s (%s) %s)", n, strings.Join(ps, " "), k))
		if len(as) == 0 {
			return n
		}
		return "(" + n + " " + strings.Join(as, " ") + ")"
	}
	var rets []Term
	for i, t := range rts {
		k := fe.sorts.SortOf(t)
		sfx := fmt.Sprintf("_r%d", i)
		switch {
		case k == SSlice && isByteSlice(t):
			content := fe.define(fe.fresh(fname+sfx+"_c"), SString, app(sfx, SString))
			isnil := app(sfx+"_nil", SBool)
			r := fe.newRef(fname + sfx + "_b")
			fe.heapDecl("HB", "(Array Int String)")
			fe.hinit(st, "HB", r, content)
			n := fe.define(fe.fresh(fname+sfx), SSlice, sIte(isnil, "(mk_slice 0 0 0 0)", fmt.Sprintf("(mk_slice %s 0 (str.len %s) (str.len %s))", r, content, content)))
			fe.assume(fmt.Sprintf("(=> %s (= %s \"\"))", isnil, content))
			rets = append(rets, Term{n, k, t})
		case k == SSlice:
			el := t.Underlying().(*types.Slice).Elem()
			es := fe.sorts.SortOf(el)
			h, _, _ := fe.sliceHeap(el)
			arr := app(sfx, Sort(fmt.Sprintf("(Array Int %s)", es)))
			ln := fe.define(fe.fresh(fname+sfx+"_len"), SInt, app(sfx+"_len", SInt))
			fe.assume(fmt.Sprintf("(>= %s 0)", ln))
			r := fe.newRef(fname + sfx + "_b")
			fe.hinit(st, h, r, arr)
			n := fe.define(fe.fresh(fname+sfx), SSlice, fmt.Sprintf("(mk_slice (ite (= %s 0) 0 %s) 0 %s %s)", ln, r, ln, ln))
			rets = append(rets, Term{n, k, t})
		default:
			n := fe.define(fe.fresh(fname+sfx), k, app(sfx, k))
			fe.assumeTypeInv(n, t)
			rets = append(rets, Term{n, k, t})
		}
	}
	return rets
}

func shortName(full string) string {
	return strings.ReplaceAll(full, "github.com/oauth2-proxy/oauth2-proxy/v7", "o2p")
}

// pureCallByName lets spec expressions apply Go functions that are modelled (library model or pure contract).
func (fe *FuncEnc) pureCallByName(e *Env, name string, args []Term) (Term, bool) {
	// resolve "pkg.Func" to a function object
	i := strings.LastIndex(name, ".")
	var fn *ssa.Function
	if i >= 0 {
		if p := e.findPkg(name[:i]); p != nil {
			if sp := fe.eng.prog.Package(p); sp != nil {
				fn = sp.Func(name[i+1:])
			}
		}
	} else if e.pkg != nil {
		if sp := fe.eng.prog.Package(e.pkg); sp != nil {
			fn = sp.Func(name)
		}
	}
	if fn == nil {
		return Term{}, false
	}
	if rets, ok := fe.libModelPure(e.st, fullName(fn), args); ok && len(rets) > 0 {
		return rets[0], true
	}
	fc := fe.eng.contractFor(fn)
	if fc == nil || !fc.Pure {
		return Term{}, false
	}
	rets := fe.pureAppSpec(e.st, fullName(fn), args, sigResults(fn.Signature))
	if len(rets) == 0 {
		return Term{}, false
	}
	return rets[0], true
}

func sigResults(sig *types.Signature) []types.Type {
	var rts []types.Type
	for j := 0; j < sig.Results().Len(); j++ {
		rts = append(rts, sig.Results().At(j).Type())
	}
	return rts
}

// pureArgs: argument sorts/terms of the uninterpreted function standing for a pure callee.
func (fe *FuncEnc) pureArgs(st *State, args []Term) (ps, as []string) {
	for _, a := range args {
		switch {
		case fe.seqLen[a.S] != "":
			ps = append(ps, string(a.K), "Int", "Int")
			as = append(as, a.S, "0", fe.seqLen[a.S])
		case a.K == SSlice && a.T != nil && isByteSlice(a.T):
			ps = append(ps, "String")
			as = append(as, fe.bytesContent(st, a.S))
		case a.K == SSlice && a.T != nil:
			el := a.T.Underlying().(*types.Slice).Elem()
			h, _, _ := fe.sliceHeap(el)
			ps = append(ps, fmt.Sprintf("(Array Int %s)", fe.sorts.SortOf(el)), "Int", "Int")
			as = append(as, fmt.Sprintf("(select %s (s_base %s))", fe.hget(st, h), a.S), fmt.Sprintf("(s_off %s)", a.S), fmt.Sprintf("(s_len %s)", a.S))
		default:
			ps = append(ps, string(a.K))
			as = append(as, a.S)
		}
	}
	return
}

func pureFuncName(name string) string {
	fname := "pf_" + mangle(shortName(name))
	if len(fname) > 80 {
		fname = fname[:80]
	}
	return fname
}

// pureAppSpec: the same uninterpreted functions as pureApp, without allocating: []byte results are
// their content (String), other slice results are spec-level sequences (element array + length).
func (fe *FuncEnc) pureAppSpec(st *State, name string, args []Term, rts []types.Type) []Term {
	ps, as := fe.pureArgs(st, args)
	fname := pureFuncName(name)
	app := func(suffix string, k Sort) string {
		n := fname + suffix
		fe.pre.decl(fmt.Sprintf("(declare-fun %s (%s) %s)", n, strings.Join(ps, " "), k))
		if len(as) == 0 {
			return n
		}
		return "(" + n + " " + strings.Join(as, " ") + ")"
	}
	var rets []Term
	for i, t := range rts {
		k := fe.sorts.SortOf(t)
		sfx := fmt.Sprintf("_r%d", i)
		switch {
		case k == SSlice && isByteSlice(t):
			rets = append(rets, Term{S: app(sfx, SString), K: SString, T: types.Typ[types.String]})
		case k == SSlice:
			el := t.Underlying().(*types.Slice).Elem()
			ak := Sort(fmt.Sprintf("(Array Int %s)", fe.sorts.SortOf(el)))
			arr := app(sfx, ak)
			fe.seqLen[arr] = app(sfx+"_len", SInt)
			rets = append(rets, Term{S: arr, K: ak, T: t})
		default:
			rets = append(rets, Term{S: app(sfx, k), K: k, T: t})
		}
	}
	return rets
}

// ---- Go builtins ----

func (fr *Frame) goBuiltin(c ssa.CallInstruction, b *ssa.Builtin, st *State, args []Term) []Term {
	fe := fr.fe
	val := func(expr string, t types.Type) []Term {
		k := fe.sorts.SortOf(t)
		n := fe.define(fe.fresh(fr.prefix+b.Name()), k, expr)
		return []Term{{n, k, t}}
	}
	rt := types.Type(types.Typ[types.Int])
	if v := c.Value(); v != nil {
		rt = v.Type()
	}
	switch b.Name() {
	case "len":
		a := args[0]
		switch {
		case a.K == SString:
			return val(fmt.Sprintf("(str.len %s)", a.S), rt)
		case a.K == SSlice:
			return val(fmt.Sprintf("(s_len %s)", a.S), rt)
		default:
			if _, ok := a.T.Underlying().(*types.Map); ok {
				fe.heapDecl("HMlen", "(Array Int Int)")
				r := val(fmt.Sprintf("(ite (= %s 0) 0 (select %s %s))", a.S, fe.hget(st, "HMlen"), a.S), rt)
				fe.assume(fmt.Sprintf("(>= %s 0)", r[0].S))
				return r
			}
			if p, ok := a.T.Underlying().(*types.Pointer); ok {
				if arr, ok := p.Elem().Underlying().(*types.Array); ok {
					return val(fmt.Sprint(arr.Len()), rt)
				}
			}
			if arr, ok := a.T.Underlying().(*types.Array); ok {
				return val(fmt.Sprint(arr.Len()), rt)
			}
		}
		r := fe.havocVal(fr.prefix+"len", rt)
		fe.assume(fmt.Sprintf("(>= %s 0)", r.S))
		return []Term{r}
	case "cap":
		if args[0].K == SSlice {
			return val(fmt.Sprintf("(s_cap %s)", args[0].S), rt)
		}
		r := fe.havocVal(fr.prefix+"cap", rt)
		fe.assume(fmt.Sprintf("(>= %s 0)", r.S))
		return []Term{r}
	case "append":
		return fr.appendModel(c, st, args, rt)
	case "copy":
		// copy(dst, src): dst content havocked
		if args[0].K == SSlice && args[0].T != nil {
			el := args[0].T.Underlying().(*types.Slice).Elem()
			h, _, _ := fe.sliceHeap(el)
			fe.havocHeaps(st, "copy", func(n string) bool { return n == h })
		}
		r := fe.havocVal(fr.prefix+"copied", rt)
		fe.assume(fmt.Sprintf("(>= %s 0)", r.S))
		return []Term{r}
	case "delete":
		if m, ok := args[0].T.Underlying().(*types.Map); ok {
			d, _ := fe.mapHeaps(m)
			cur := fe.hget(st, d)
			mv, k := args[0].S, args[1].S
			fe.hset(st, "HMlen", fmt.Sprintf("(store %s %s (- (select %s %s) (ite (select (select %s %s) %s) 1 0)))", fe.hget(st, "HMlen"), mv, fe.hget(st, "HMlen"), mv, cur, mv, k))
			fe.hset(st, d, fmt.Sprintf("(store %s %s (store (select %s %s) %s false))", cur, mv, cur, mv, k))
		}
		return nil
	case "print", "println":
		return nil
	case "min", "max":
		if len(args) == 2 && args[0].K == SInt {
			op := "<="
			if b.Name() == "max" {
				op = ">="
			}
			return val(fmt.Sprintf("(ite (%s %s %s) %s %s)", op, args[0].S, args[1].S, args[0].S, args[1].S), rt)
		}
	case "recover":
		return []Term{fe.havocVal(fr.prefix+"recovered", rt)}
	case "close":
		return nil
	}
	fe.note("builtin %s not modelled", b.Name())
	if c.Value() != nil {
		if _, isT := c.Value().Type().(*types.Tuple); !isT {
			return []Term{fe.havocVal(fr.prefix+b.Name(), rt)}
		}
	}
	return nil
}

// appendModel: copy-on-append. The result is a fresh backing array holding old content followed by the new elements.
func (fr *Frame) appendModel(c ssa.CallInstruction, st *State, args []Term, rt types.Type) []Term {
	fe := fr.fe
	s, add := args[0], args[1]
	el := rt.Underlying().(*types.Slice).Elem()
	h, _, isB := fe.sliceHeap(el)
	r := fe.newRef(fr.prefix + "app_b")
	cur := fe.hget(st, h)
	var addLen string
	if isB {
		var addC string
		if add.K == SString {
			addC = add.S
		} else {
			addC = fe.bytesContent(st, add.S)
		}
		addLen = fmt.Sprintf("(str.len %s)", addC)
		fe.hinit(st, h, r, fmt.Sprintf("(str.++ %s %s)", fe.bytesContent(st, s.S), addC))
	} else {
		addLen = fmt.Sprintf("(s_len %s)", add.S)
		// new array: elements [0,len s) from s, [len s, len s + len add) from add
		na := fe.fresh("apparr")
		es := fe.sorts.SortOf(el)
		fe.declConst(na, Sort(fmt.Sprintf("(Array Int %s)", es)))
		// the common case: appending a known small number of elements (variadic literal)
		if n, ok := fr.staticSliceLen(c.Common().Args[1]); ok && n <= 4 {
			fe.assume(fmt.Sprintf("(forall ((qi Int)) (=> (and (<= 0 qi) (< qi (s_len %s))) (= (select %s qi) (select (select %s (s_base %s)) (+ (s_off %s) qi)))))", s.S, na, cur, s.S, s.S))
			for i := 0; i < n; i++ {
				fe.assume(fmt.Sprintf("(= (select %s (+ (s_len %s) %d)) (select (select %s (s_base %s)) (+ (s_off %s) %d)))", na, s.S, i, cur, add.S, add.S, i))
			}
		} else {
			fe.assume(fmt.Sprintf("(forall ((qi Int)) (=> (and (<= 0 qi) (< qi (s_len %s))) (= (select %s qi) (select (select %s (s_base %s)) (+ (s_off %s) qi)))))", s.S, na, cur, s.S, s.S))
			fe.assume(fmt.Sprintf("(forall ((qi Int)) (=> (and (<= 0 qi) (< qi (s_len %s))) (= (select %s (+ (s_len %s) qi)) (select (select %s (s_base %s)) (+ (s_off %s) qi)))))", add.S, na, s.S, cur, add.S, add.S))
		}
		fe.hinit(st, h, r, na)
	}
	k := fe.sorts.SortOf(rt)
	nl := fmt.Sprintf("(+ (s_len %s) %s)", s.S, addLen)
	capv := fe.fresh("appcap")
	fe.declConst(capv, SInt)
	fe.assume(fmt.Sprintf("(>= %s %s)", capv, nl))
	n := fe.define(fe.fresh(fr.prefix+"append"), k, fmt.Sprintf("(mk_slice %s 0 %s %s)", r, nl, capv))
	if !isB {
		// element view of the result for quantified specifications
		es := fe.sorts.SortOf(el)
		nh := fe.hget(st, h)
		hs := fe.heapSorts[h]
		atNew := fe.elemRead(nh, hs, n, "qi", es)
		atOld := fe.elemRead(cur, hs, s.S, "qi", es)
		if cnt, ok := fr.staticSliceLen(c.Common().Args[1]); ok && cnt <= 4 {
			fe.assume(fmt.Sprintf("(forall ((qi Int)) (! (=> (and (<= 0 qi) (< qi (s_len %s))) (= %s %s)) :pattern (%s)))", s.S, atNew, atOld, atNew))
			for i := 0; i < cnt; i++ {
				fe.assume(fmt.Sprintf("(= (at_%s %s %s (+ (s_len %s) %d)) (select (select %s (s_base %s)) (+ (s_off %s) %d)))",
					mangle(string(es)), nh, n, s.S, i, cur, add.S, add.S, i))
			}
		} else {
			atAdd := fe.elemRead(cur, hs, add.S, fmt.Sprintf("(- qi (s_len %s))", s.S), es)
			fe.assume(fmt.Sprintf("(forall ((qi Int)) (! (=> (and (<= 0 qi) (< qi %s)) (= %s (ite (< qi (s_len %s)) %s %s))) :pattern (%s)))", nl, atNew, s.S, atOld, atAdd, atNew))
		}
	}
	return []Term{{n, k, rt}}
}

// staticSliceLen: length of a slice built from a fixed-size array literal (variadic call sites).
func (fr *Frame) staticSliceLen(v ssa.Value) (int, bool) {
	sl, ok := v.(*ssa.Slice)
	if !ok || sl.Low != nil || sl.High != nil {
		return 0, false
	}
	if p, ok := sl.X.Type().Underlying().(*types.Pointer); ok {
		if a, ok := p.Elem().Underlying().(*types.Array); ok {
			return int(a.Len()), true
		}
	}
	return 0, false
}

// variadicElems recovers the elements stored into a variadic argument array (fmt.Sprintf("..", a, b)).
func (fr *Frame) variadicElems(v ssa.Value) ([]ssa.Value, bool) {
	if c, ok := v.(*ssa.Const); ok && c.Value == nil {
		return nil, true
	}
	sl, ok := v.(*ssa.Slice)
	if !ok {
		return nil, false
	}
	al, ok := sl.X.(*ssa.Alloc)
	if !ok {
		return nil, false
	}
	arr, ok := al.Type().Underlying().(*types.Pointer).Elem().Underlying().(*types.Array)
	if !ok {
		return nil, false
	}
	elems := make([]ssa.Value, arr.Len())
	for _, r := range *al.Referrers() {
		ia, ok := r.(*ssa.IndexAddr)
		if !ok {
			continue
		}
		ic, ok := ia.Index.(*ssa.Const)
		if !ok {
			return nil, false
		}
		for _, r2 := range *ia.Referrers() {
			if s, ok := r2.(*ssa.Store); ok && s.Addr == ia {
				elems[ic.Int64()] = s.Val
			}
		}
	}
	for _, e := range elems {
		if e == nil {
			return nil, false
		}
	}
	return elems, true
}

func (fr *Frame) encodeDeferred(d *ssa.Defer, st *State) {
	fe := fr.fe
	reach := fr.deferReach[d]
	if reach == "" {
		return
	}
	if fe.callIsHeapNeutral(d) {
		return
	}
	// conditional havoc: the deferred call ran iff the defer statement was reached
	before := st.clone()
	fe.havocHeaps(st, "deferred call", nil)
	for _, h := range sortedKeys(fe.heapSorts) {
		if st.heap[h] != before.heap[h] && before.heap[h] != "" {
			n := fe.fresh(h + "_d")
			fe.define(n, fe.heapSorts[h], sIte(reach, st.heap[h], before.heap[h]))
			st.heap[h] = n
		}
	}
}

// callIsHeapNeutral: true when the call is known not to modify any modelled heap.
func (fe *FuncEnc) callIsHeapNeutral(c ssa.CallInstruction) bool {
	cc := c.Common()
	if b, ok := cc.Value.(*ssa.Builtin); ok {
		switch b.Name() {
		case "len", "cap", "print", "println", "min", "max", "recover", "close", "append", "copy", "delete":
			return true // append/copy/delete write only the heaps reported by callWrites
		}
		return false
	}
	if cc.IsInvoke() {
		if fc, ok := fe.eng.specs.ifaces[ifaceKey(cc.Value.Type(), cc.Method)]; ok {
			return fc.NoMod || fc.Pure || fc.Modifies != nil
		}
		return false
	}
	fn := cc.StaticCallee()
	if fn == nil {
		if mc, ok := cc.Value.(*ssa.MakeClosure); ok {
			fn = mc.Fn.(*ssa.Function)
		}
	}
	if fn == nil {
		if n := funcValueName(cc.Value); n != "" {
			if fc := fe.eng.specs.funcs[fnPkgPath(fe.fn)+"::funcval "+n]; fc != nil {
				return fc.NoMod || fc.Pure || fc.Modifies != nil
			}
		}
		return false
	}
	if libModelNeutral(fullName(fn)) {
		return true
	}
	if fc := fe.eng.contractFor(fn); fc != nil {
		return fc.NoMod || fc.Pure || fc.Modifies != nil
	}
	return false
}

var _ = types.Typ

func (fe *FuncEnc) callWrites(c ssa.CallInstruction) []string {
	cc := c.Common()
	if b, ok := cc.Value.(*ssa.Builtin); ok {
		switch b.Name() {
		case "append":
			return nil // copy-on-append: the result lives in a fresh backing array
		case "copy":
			if s, ok := cc.Args[0].Type().Underlying().(*types.Slice); ok {
				h, _, _ := fe.sliceHeap(s.Elem())
				return []string{h}
			}
		case "delete":
			if m, ok := cc.Args[0].Type().Underlying().(*types.Map); ok {
				d, v := fe.mapHeaps(m)
				return []string{d, v, "HMlen"}
			}
		}
		return nil
	}
	var fc *FuncContract
	if cc.IsInvoke() {
		fc = fe.eng.specs.ifaces[ifaceKey(cc.Value.Type(), cc.Method)]
	} else if fn := cc.StaticCallee(); fn != nil {
		fc = fe.eng.contractFor(fn)
	}
	var out []string
	if fc != nil {
		for _, m := range fc.Modifies {
			if i := strings.Index(m, "."); i > 0 && (m[:i] == "self" || m[:i] == "recv" || contains(fc.ParamNames, m[:i])) {
				out = append(out, fe.heapsMatching("ghost:"+m[i+1:], calleeInfo{})...)
				continue
			}
			out = append(out, fe.heapsMatching(m, calleeInfo{})...)
		}

	}
	return out
}
