package main

// Evaluation of specification expressions to SMT terms in a symbolic state.

import (
	"fmt"
	"go/ast"
	"go/constant"
	"go/token"
	"go/types"
	"strings"

	"golang.org/x/tools/go/ssa"
)

type phiSel struct {
	block   *ssa.BasicBlock
	predIdx int
}

type Env struct {
	scopeAt     *ssa.BasicBlock // block whose scope decides which same-named local is meant (loop obligations)
	fe          *FuncEnc
	fr          *Frame // nil in callee/global mode
	st          *State
	old         *State
	vars        map[string]Term
	phiEdge     *phiSel
	loopHdr     *ssa.BasicBlock
	inOld       bool
	entryParams bool
	pkg         *types.Package
	at          *ssa.BasicBlock // evaluation point (for local-name resolution), may be nil
	calleeMode  bool
	curCall     *CallSite // sink evaluation: the call site the assertion is attached to
	curName     string
}

func (fr *Frame) envAt(st *State) *Env {
	var pkg *types.Package
	for f := fr.fn; f != nil; f = f.Parent() {
		if f.Pkg != nil {
			pkg = f.Pkg.Pkg
			break
		}
	}
	return &Env{fe: fr.fe, fr: fr, st: st, old: fr.init, vars: map[string]Term{}, pkg: pkg}
}

func (e *Env) with(name string, t Term) *Env {
	n := *e
	n.vars = map[string]Term{}
	for k, v := range e.vars {
		n.vars[k] = v
	}
	n.vars[name] = t
	return &n
}

type evalErr string

func (e *Env) fail(f string, a ...interface{}) { panic(evalErr(fmt.Sprintf(f, a...))) }

func (e *Env) evalBool(x *SExpr) (s string, err error) {
	t, err := e.evalTop(x)
	if err != nil {
		return "false", err
	}
	if t.K != SBool {
		return "false", fmt.Errorf("clause %s is not boolean (sort %s)", x, t.K)
	}
	return t.S, nil
}

func (e *Env) evalTop(x *SExpr) (t Term, err error) {
	e.fe.specDepth++
	defer func() { e.fe.specDepth-- }()
	defer func() {
		if r := recover(); r != nil {
			if ee, ok := r.(evalErr); ok {
				err = fmt.Errorf("cannot resolve %q: %s", x.String(), string(ee))
				return
			}
			panic(r)
		}
	}()
	return e.eval(x), nil
}

func boolT(s string) Term { return Term{s, SBool, types.Typ[types.Bool]} }
func intT(s string) Term  { return Term{s, SInt, types.Typ[types.Int]} }
func strT(s string) Term  { return Term{s, SString, types.Typ[types.String]} }

func (e *Env) eval(x *SExpr) Term {
	fe := e.fe
	switch x.Op {
	case "int":
		return intT(smtInt(x.Int))
	case "str":
		return strT(smtStr(x.Str))
	case "bool":
		if x.Bool {
			return boolT("true")
		}
		return boolT("false")
	case "nil":
		return Term{"0", SInt, types.Typ[types.UntypedNil]}
	case "ident":
		return e.ident(x.Name)
	case "not":
		return boolT(sNot(e.evalB(x.Args[0])))
	case "neg":
		return intT("(- " + e.eval(x.Args[0]).S + ")")
	case "and":
		return boolT(sAnd(e.evalB(x.Args[0]), e.evalB(x.Args[1])))
	case "or":
		return boolT(sOr(e.evalB(x.Args[0]), e.evalB(x.Args[1])))
	case "imp":
		return boolT(sImp(e.evalB(x.Args[0]), e.evalB(x.Args[1])))
	case "iff":
		return boolT("(= " + e.evalB(x.Args[0]) + " " + e.evalB(x.Args[1]) + ")")
	case "==", "!=":
		a, b := e.eval(x.Args[0]), e.eval(x.Args[1])
		s := e.equal(a, b)
		if x.Op == "!=" {
			s = sNot(s)
		}
		return boolT(s)
	case "<", "<=", ">", ">=":
		a, b := e.eval(x.Args[0]), e.eval(x.Args[1])
		if a.K == SString {
			switch x.Op {
			case "<":
				return boolT(fmt.Sprintf("(str.< %s %s)", a.S, b.S))
			case "<=":
				return boolT(fmt.Sprintf("(str.<= %s %s)", a.S, b.S))
			case ">":
				return boolT(fmt.Sprintf("(str.< %s %s)", b.S, a.S))
			default:
				return boolT(fmt.Sprintf("(str.<= %s %s)", b.S, a.S))
			}
		}
		return boolT(fmt.Sprintf("(%s %s %s)", x.Op, a.S, b.S))
	case "+":
		a, b := e.eval(x.Args[0]), e.eval(x.Args[1])
		if a.K == SString {
			return strT(fmt.Sprintf("(str.++ %s %s)", a.S, b.S))
		}
		return Term{fmt.Sprintf("(+ %s %s)", a.S, b.S), a.K, a.T}
	case "-", "*":
		a, b := e.eval(x.Args[0]), e.eval(x.Args[1])
		return Term{fmt.Sprintf("(%s %s %s)", x.Op, a.S, b.S), a.K, a.T}
	case "/":
		a, b := e.eval(x.Args[0]), e.eval(x.Args[1])
		return Term{fmt.Sprintf("(godiv %s %s)", a.S, b.S), a.K, a.T}
	case "%":
		a, b := e.eval(x.Args[0]), e.eval(x.Args[1])
		return Term{fmt.Sprintf("(gomod %s %s)", a.S, b.S), a.K, a.T}
	case "old":
		n := *e
		if e.old == nil {
			e.fail("old() not available here")
		}
		n.st = e.old
		n.inOld = true
		return n.eval(x.Args[0])
	case "field":
		return e.field(x)
	case "addr":
		// &base.f for a pointer base: the same abstract interior pointer the encoder gives a FieldAddr value
		a := x.Args[0]
		if a.Op == "ident" && e.fr != nil && !e.calleeMode {
			// &local for a local that lives in memory: the cell itself
			for _, b := range e.fr.fn.Blocks {
				for _, in := range b.Instrs {
					if al, ok := in.(*ssa.Alloc); ok && al.Comment == a.Name {
						if t, ok := e.fr.vals[al]; ok {
							return t
						}
					}
				}
			}
		}
		if a.Op != "field" {
			e.fail("& needs a field selector or a local that lives in memory, got %s", a)
		}
		base := e.eval(a.Args[0])
		st, named, isPtr := derefStruct(base.T)
		if st == nil || !isPtr {
			e.fail("& needs a field of a pointer to a struct (%s)", a)
		}
		for i := 0; i < st.NumFields(); i++ {
			if st.Field(i).Name() == a.Name {
				fn := "faddr_" + mangle(typeKey(named))
				if len(fn) > 70 {
					fn = fn[:70]
				}
				fn += fmt.Sprintf("_%d", i)
				fe.pre.decl(fmt.Sprintf("(declare-fun %s (Int) Int)", fn))
				return Term{fmt.Sprintf("(%s %s)", fn, base.S), SInt, types.NewPointer(st.Field(i).Type())}
			}
		}
		e.fail("type %v has no field %s", base.T, a.Name)
		return Term{}
	case "index":
		return e.index(x)
	case "slice":
		return e.sliceExpr(x)
	case "call":
		return e.call(x)
	case "callref":
		return e.callref(x)
	case "forall", "exists":
		n := e
		var bs []string
		var ranges []string
		for _, b := range x.Binders {
			T, k := e.resolveType(b.Type)
			vn := "q_" + b.Name
			n = n.with(b.Name, Term{vn, k, T})
			bs = append(bs, fmt.Sprintf("(%s %s)", vn, k))
			if T != nil {
				if r := intRange(T, vn); r != "" && b.Type != "int" {
					ranges = append(ranges, r)
				}
			}
		}
		body := n.evalB(x.Args[0])
		if x.Op == "forall" {
			return boolT(fmt.Sprintf("(forall (%s) %s)", strings.Join(bs, " "), sImp(sAnd(ranges...), body)))
		}
		return boolT(fmt.Sprintf("(exists (%s) %s)", strings.Join(bs, " "), sAnd(append(ranges, body)...)))
	}
	_ = fe
	e.fail("unsupported expression %s", x.Op)
	return Term{}
}

func (e *Env) evalB(x *SExpr) string {
	t := e.eval(x)
	if t.K != SBool {
		e.fail("%s is not boolean", x)
	}
	return t.S
}

func (e *Env) equal(a, b Term) string {
	if a.K == SSlice && b.K == SInt {
		return fmt.Sprintf("(= (s_base %s) 0)", a.S)
	}
	if b.K == SSlice && a.K == SInt {
		return fmt.Sprintf("(= (s_base %s) 0)", b.S)
	}
	if a.K != b.K {
		e.fail("comparing %s (%s) with %s (%s)", a.S, a.K, b.S, b.K)
	}
	return fmt.Sprintf("(= %s %s)", a.S, b.S)
}

func (e *Env) resolveType(name string) (types.Type, Sort) {
	switch name {
	case "int":
		return types.Typ[types.Int], SInt
	case "string":
		return types.Typ[types.String], SString
	case "bool":
		return types.Typ[types.Bool], SBool
	case "ref":
		return nil, SInt
	case "bytes", "[]byte":
		return types.NewSlice(types.Typ[types.Uint8]), SSlice
	case "strmap":
		return nil, Sort("(Array String String)")
	case "[]string":
		return types.NewSlice(types.Typ[types.String]), SSlice
	case "time":
		return nil, SInt
	}
	ptr := strings.HasPrefix(name, "*")
	n := strings.TrimPrefix(name, "*")
	if ptr {
		// pointer to a basic or slice type: *string, *bool, *int, *[]string
		if bt, ok := map[string]types.Type{"string": types.Typ[types.String], "bool": types.Typ[types.Bool], "int": types.Typ[types.Int],
			"[]string": types.NewSlice(types.Typ[types.String]), "[]byte": types.NewSlice(types.Typ[types.Uint8])}[n]; ok {
			T := types.NewPointer(bt)
			return T, e.fe.sorts.SortOf(T)
		}
	}
	var obj types.Object
	if i := strings.Index(n, "."); i >= 0 {
		if p := e.findPkg(n[:i]); p != nil {
			obj = p.Scope().Lookup(n[i+1:])
		}
	} else if e.pkg != nil {
		obj = e.pkg.Scope().Lookup(n)
	}
	if tn, ok := obj.(*types.TypeName); ok {
		T := tn.Type()
		if ptr {
			T = types.NewPointer(T)
		}
		return T, e.fe.sorts.SortOf(T)
	}
	e.fail("unknown type %s", name)
	return nil, SInt
}

func (e *Env) findPkg(name string) *types.Package {
	if e.pkg != nil {
		if e.pkg.Name() == name {
			return e.pkg
		}
		if p := e.fe.eng.importAlias(e.pkg, name); p != nil {
			return p
		}
		for _, p := range e.pkg.Imports() {
			if p.Name() == name {
				return p
			}
		}
	}
	return e.fe.eng.pkgByName(name)
}

func (e *Env) ident(name string) Term {
	fe := e.fe
	if t, ok := e.vars[name]; ok {
		return t
	}
	if e.fr != nil && !e.calleeMode && (e.inOld || e.entryParams) {
		// a parameter named in a postcondition, in an assertion at a call, or under old(): its value on entry, whatever was
		// assigned to it later (loop invariants see the current value)
		for i, p := range e.fr.fn.Params {
			if p.Name() == name {
				return e.fr.params[i]
			}
		}
	}
	if e.fr != nil && !e.calleeMode {
		fr := e.fr
		// ghost loop accumulators (their value at the loop head; after the loop: the final value)
		for _, li := range fr.loopCtx {
			if t, ok := li.ghosts[name]; ok {
				return t
			}
		}
		// loop-carried variables by phi comment
		if e.phiEdge != nil || e.loopHdr != nil {
			blk := e.loopHdr
			if e.phiEdge != nil {
				blk = e.phiEdge.block
			}
			for _, in := range blk.Instrs {
				p, ok := in.(*ssa.Phi)
				if !ok {
					break
				}
				if p.Comment == name {
					if e.phiEdge != nil {
						return fr.val(p.Edges[e.phiEdge.predIdx])
					}
					return fr.val(p)
				}
			}
		}
		if e.at != nil && e.phiEdge == nil && e.loopHdr == nil {
			// a loop-carried variable of an enclosing loop (innermost header dominating the evaluation point)
			var best *ssa.Phi
			for hdr := range fr.loopCtx {
				if !hdr.Dominates(e.at) || !fr.loopCtx[hdr].body[e.at] {
					continue
				}
				for _, in := range hdr.Instrs {
					p, ok := in.(*ssa.Phi)
					if !ok {
						break
					}
					if p.Comment == name && (best == nil || best.Block().Dominates(hdr)) {
						best = p
					}
				}
			}
			if best != nil {
				return fr.val(best)
			}
		}
		if e.at != nil && e.phiEdge == nil && e.loopHdr == nil {
			// a merge phi of that variable dominating the evaluation point (innermost)
			var best *ssa.Phi
			for _, b := range fr.fn.Blocks {
				if !(b == e.at || b.Dominates(e.at)) {
					continue
				}
				for _, in := range b.Instrs {
					p, ok := in.(*ssa.Phi)
					if !ok {
						break
					}
					if p.Comment == name && (best == nil || best.Block().Dominates(b)) {
						best = p
					}
				}
			}
			if best != nil {
				if _, defined := fr.vals[best]; defined {
					return fr.val(best)
				}
			}
		}
		for i, p := range fr.fn.Params {
			if p.Name() == name {
				return fr.params[i]
			}
		}
		for i, p := range fr.fn.FreeVars {
			if p.Name() == name {
				// free variables are pointers to the captured variable when captured by reference
				t := fr.free[i]
				if pt, ok := p.Type().Underlying().(*types.Pointer); ok && fe.eng.freeVarIsCell(fr.fn, i) && fe.eng.freeVarReadOnly(fr.fn, i) {
					n := fr.prefix + "cv_" + mangle(p.Name())
					k := fe.sorts.SortOf(pt.Elem())
					fe.declConst(n, k)
					if !fe.cvSeen[n] {
						fe.cvSeen[n] = true
						g := fe.curGuard
						fe.curGuard = ""
						fe.assumeTypeInv(n, pt.Elem())
						fe.curGuard = g
					}
					return Term{n, k, pt.Elem()}
				}
				if pt, ok := p.Type().Underlying().(*types.Pointer); ok && fe.eng.freeVarIsCell(fr.fn, i) {
					return Term{fe.loadRef(e.st, t.S, pt.Elem()), fe.sorts.SortOf(pt.Elem()), pt.Elem()}
				}
				return t
			}
		}
		// a local that lives in memory (address taken / captured): its current content
		for _, b := range fr.fn.Blocks {
			for _, in := range b.Instrs {
				if al, ok := in.(*ssa.Alloc); ok && al.Comment == name {
					if t, ok := fr.vals[al]; ok {
						T := al.Type().Underlying().(*types.Pointer).Elem()
						return Term{fe.loadRef(e.st, t.S, T), fe.sorts.SortOf(T), T}
					}
				}
			}
		}
		scope := e.at
		if scope == nil {
			scope = e.scopeAt
		}
		if v := fr.localByName(name, scope); v != nil {
			if _, defined := fr.vals[v]; defined || scope == e.at {
				return fr.val(v)
			}
		}
		if e.at != nil {
			// not defined on every path to this point: use its (unique) definition elsewhere; clauses guard such uses
			if v := fr.localByName(name, nil); v != nil {
				return fr.val(v)
			}
		}
	}
	// package-level objects
	if e.pkg != nil {
		if obj := e.pkg.Scope().Lookup(name); obj != nil {
			return e.pkgObject(obj)
		}
	}
	// zero-argument spec function / constant
	if sf, ok := fe.eng.specs.specFns[name]; ok && len(sf.Params) == 0 {
		return e.specApp(sf, nil)
	}
	e.fail("unknown identifier %s", name)
	return Term{}
}

func (e *Env) pkgObject(obj types.Object) Term {
	fe := e.fe
	switch o := obj.(type) {
	case *types.Const:
		k := fe.sorts.SortOf(o.Type())
		switch k {
		case SInt:
			v, _ := constant.Int64Val(constant.ToInt(o.Val()))
			return Term{smtInt(v), SInt, o.Type()}
		case SString:
			return Term{smtStr(constant.StringVal(o.Val())), SString, o.Type()}
		case SBool:
			if constant.BoolVal(o.Val()) {
				return boolT("true")
			}
			return boolT("false")
		}
	case *types.Func:
		if fn := fe.eng.prog.FuncValue(o); fn != nil {
			return fe.top.val(fn)
		}
	case *types.Var:
		// package-level variable: its current value
		sp := fe.eng.prog.Package(o.Pkg())
		if sp != nil {
			if g, ok := sp.Members[o.Name()].(*ssa.Global); ok {
				k := fe.sorts.SortOf(o.Type())
				if fe.eng.immutableGlobal(g) {
					n := "gv_" + mangle(shortPkg(g.Pkg.Pkg.Path())+"."+g.Name())
					fe.declConst(n, k)
					if fe.eng.nonNilGlobal(g) && k == SInt {
						fe.pre.decl(fmt.Sprintf("(assert (not (= %s 0)))", n))
					}
					fe.eng.globalVals[n] = g
					fe.sentinelSeen(n, g)
					return Term{n, k, o.Type()}
				}
				gt := Term{"g_" + mangle(shortPkg(g.Pkg.Pkg.Path())+"."+g.Name()), SInt, g.Type()}
				fe.declConst(gt.S, SInt)
				return Term{fe.loadRef(e.st, gt.S, o.Type()), k, o.Type()}
			}
		}
	}
	e.fail("unsupported package object %s", obj.Name())
	return Term{}
}

// localByName finds a source-level local by its name through DebugRefs.
func (fr *Frame) localByName(name string, at *ssa.BasicBlock) ssa.Value {
	var best ssa.Value
	var bestBlock *ssa.BasicBlock
	count := 0
	for _, b := range fr.fn.Blocks {
		for _, in := range b.Instrs {
			d, ok := in.(*ssa.DebugRef)
			if !ok || d.IsAddr {
				continue
			}
			obj := d.Object()
			if obj == nil || obj.Name() != name {
				continue
			}
			if _, isVar := obj.(*types.Var); !isVar {
				continue
			}
			if at != nil && !b.Dominates(at) {
				continue
			}
			X := d.X
			if c, isConst := X.(*ssa.Const); isConst && c.Value == nil && d.Pos() == obj.Pos() {
				// x := <composite literal>: this go/ssa records the zero value at the defining identifier; the value the
				// variable gets is the one recorded for the right-hand side expression
				if v := fr.rhsValueOfDef(d.Pos()); v != nil {
					X = v
				}
			}
			if best != nil && best == X {
				continue
			}
			// prefer the latest dominating definition
			if best == nil || bestBlock.Dominates(b) {
				best, bestBlock = X, b
			}
			count++
		}
	}
	return best
}

// rhsValueOfDef: for the defining identifier at pos in "lhs := rhs" / "var lhs = rhs", the SSA value recorded for rhs.
func (fr *Frame) rhsValueOfDef(pos token.Pos) ssa.Value {
	syn := fr.fn.Syntax()
	if syn == nil {
		return nil
	}
	var rhs ast.Expr
	ast.Inspect(syn, func(n ast.Node) bool {
		switch x := n.(type) {
		case *ast.AssignStmt:
			if len(x.Lhs) == len(x.Rhs) {
				for i, l := range x.Lhs {
					if l.Pos() == pos {
						rhs = x.Rhs[i]
					}
				}
			}
		case *ast.ValueSpec:
			if len(x.Names) == len(x.Values) {
				for i, l := range x.Names {
					if l.Pos() == pos {
						rhs = x.Values[i]
					}
				}
			}
		}
		return rhs == nil
	})
	if rhs == nil {
		return nil
	}
	for _, b := range fr.fn.Blocks {
		for _, in := range b.Instrs {
			if d, ok := in.(*ssa.DebugRef); ok && !d.IsAddr && d.Expr == rhs {
				return d.X
			}
		}
	}
	return nil
}

func derefStruct(T types.Type) (st *types.Struct, named types.Type, isPtr bool) {
	if T == nil {
		return nil, nil, false
	}
	if p, ok := T.Underlying().(*types.Pointer); ok {
		if s, ok := p.Elem().Underlying().(*types.Struct); ok {
			return s, p.Elem(), true
		}
		return nil, nil, true
	}
	if s, ok := T.Underlying().(*types.Struct); ok {
		return s, T, false
	}
	return nil, nil, false
}

func (e *Env) field(x *SExpr) Term {
	fe := e.fe
	// package-qualified identifier?
	if x.Args[0].Op == "ident" {
		if _, isVar := e.tryIdent(x.Args[0].Name); !isVar {
			if p := e.findPkg(x.Args[0].Name); p != nil {
				if obj := p.Scope().Lookup(x.Name); obj != nil {
					return e.pkgObject(obj)
				}
				e.fail("package %s has no object %s", p.Path(), x.Name)
			}
		}
	}
	base := e.eval(x.Args[0])
	// ghost field
	if h, _, ok := fe.ghostHeap(x.Name); ok {
		return Term{fmt.Sprintf("(select %s %s)", fe.hget(e.st, h), base.S), fe.eng.specs.ghosts[x.Name], nil}
	}
	st, named, isPtr := derefStruct(base.T)
	if st == nil {
		e.fail("%s has no fields (type %v)", x.Args[0], base.T)
	}
	for i := 0; i < st.NumFields(); i++ {
		f := st.Field(i)
		if f.Name() == x.Name {
			k := fe.sorts.SortOf(f.Type())
			if isPtr {
				h, _ := fe.fieldHeap(named, i)
				return Term{fmt.Sprintf("(select %s %s)", fe.hget(e.st, h), base.S), k, f.Type()}
			}
			ss := fe.sorts.structInfo(fe.sorts.SortOf(named))
			return Term{fmt.Sprintf("(%s %s)", ss.fnames[i], base.S), k, f.Type()}
		}
	}
	// promoted through embedded fields (any depth): walk the selection path go/types computes
	if obj, path, _ := types.LookupFieldOrMethod(base.T, true, e.pkg, x.Name); obj != nil && len(path) > 1 {
		if _, isVar := obj.(*types.Var); isVar {
			cur := base
			for _, idx := range path {
				cs, cn, cp := derefStruct(cur.T)
				if cs == nil || idx >= cs.NumFields() {
					e.fail("type %v has no field %s", base.T, x.Name)
				}
				f := cs.Field(idx)
				k := fe.sorts.SortOf(f.Type())
				if cp {
					h, _ := fe.fieldHeap(cn, idx)
					cur = Term{fmt.Sprintf("(select %s %s)", fe.hget(e.st, h), cur.S), k, f.Type()}
				} else {
					ss := fe.sorts.structInfo(fe.sorts.SortOf(cn))
					cur = Term{fmt.Sprintf("(%s %s)", ss.fnames[idx], cur.S), k, f.Type()}
				}
			}
			return cur
		}
	}
	e.fail("type %v has no field %s", base.T, x.Name)
	return Term{}
}

func (e *Env) tryIdent(name string) (t Term, ok bool) {
	defer func() {
		if r := recover(); r != nil {
			if _, isE := r.(evalErr); isE {
				ok = false
				return
			}
			panic(r)
		}
	}()
	// only local names count here (not package-level objects named like a package)
	if _, in := e.vars[name]; in {
		return e.vars[name], true
	}
	if e.fr != nil && !e.calleeMode {
		n := *e
		n.pkg = nil
		return n.ident(name), true
	}
	return Term{}, false
}

func (e *Env) index(x *SExpr) Term {
	fe := e.fe
	a := e.eval(x.Args[0])
	i := e.eval(x.Args[1])
	if a.K == SString {
		return intT(fmt.Sprintf("(str.to_code (str.at %s %s))", a.S, i.S))
	}
	if fe.seqLen[a.S] != "" {
		el := a.T.Underlying().(*types.Slice).Elem()
		return Term{S: fmt.Sprintf("(select %s %s)", a.S, i.S), K: fe.sorts.SortOf(el), T: el}
	}
	if a.T != nil {
		switch t := a.T.Underlying().(type) {
		case *types.Slice:
			h, _, isB := fe.sliceHeap(t.Elem())
			if isB {
				return intT(fmt.Sprintf("(str.to_code (str.at (select %s (s_base %s)) (+ (s_off %s) %s)))", fe.hget(e.st, h), a.S, a.S, i.S))
			}
			return Term{fe.elemRead(fe.hget(e.st, h), fe.heapSorts[h], a.S, i.S, fe.sorts.SortOf(t.Elem())), fe.sorts.SortOf(t.Elem()), t.Elem()}
		case *types.Map:
			_, v := fe.mapHeaps(t)
			return Term{fmt.Sprintf("(select (select %s %s) %s)", fe.hget(e.st, v), a.S, i.S), fe.sorts.SortOf(t.Elem()), t.Elem()}
		case *types.Array:
			return Term{fmt.Sprintf("(select %s %s)", a.S, i.S), fe.sorts.SortOf(t.Elem()), t.Elem()}
		}
	}
	e.fail("cannot index %s", x.Args[0])
	return Term{}
}

func (e *Env) sliceExpr(x *SExpr) Term {
	a := e.eval(x.Args[0])
	lo := "0"
	if x.Args[1] != nil {
		lo = e.eval(x.Args[1]).S
	}
	if a.K == SString {
		hi := fmt.Sprintf("(str.len %s)", a.S)
		if x.Args[2] != nil {
			hi = e.eval(x.Args[2]).S
		}
		return strT(fmt.Sprintf("(str.substr %s %s (- %s %s))", a.S, lo, hi, lo))
	}
	if a.K == SSlice {
		hi := fmt.Sprintf("(s_len %s)", a.S)
		if x.Args[2] != nil {
			hi = e.eval(x.Args[2]).S
		}
		return Term{fmt.Sprintf("(mk_slice (s_base %s) (+ (s_off %s) %s) (- %s %s) (- (s_cap %s) %s))", a.S, a.S, lo, hi, lo, a.S, lo), SSlice, a.T}
	}
	e.fail("cannot slice %s", x.Args[0])
	return Term{}
}

func (e *Env) call(x *SExpr) Term {
	fe := e.fe
	args := func() []Term {
		var ts []Term
		for _, a := range x.Args {
			ts = append(ts, e.eval(a))
		}
		return ts
	}
	need := func(n int) {
		if len(x.Args) != n {
			e.fail("%s expects %d arguments", x.Name, n)
		}
	}
	switch x.Name {
	case "len":
		need(1)
		a := e.eval(x.Args[0])
		switch {
		case fe.seqLen[a.S] != "":
			return intT(fe.seqLen[a.S])
		case a.K == SString:
			return intT(fmt.Sprintf("(str.len %s)", a.S))
		case a.K == SSlice:
			return intT(fmt.Sprintf("(s_len %s)", a.S))
		case a.T != nil:
			if _, ok := a.T.Underlying().(*types.Map); ok {
				fe.heapDecl("HMlen", "(Array Int Int)")
				return intT(fmt.Sprintf("(ite (= %s 0) 0 (select %s %s))", a.S, fe.hget(e.st, "HMlen"), a.S))
			}
		}
		e.fail("len of %s", x.Args[0])
	case "bytes", "string":
		need(1)
		a := e.eval(x.Args[0])
		if a.K == SString {
			return a
		}
		if a.K == SSlice {
			return strT(fe.bytesContent(e.st, a.S))
		}
		if a.K == SInt && x.Name == "string" {
			return strT(fmt.Sprintf("(str.from_code %s)", a.S))
		}
		e.fail("bytes() of non-slice %s", x.Args[0])
	case "HasPrefix":
		need(2)
		a := args()
		return boolT(fmt.Sprintf("(str.prefixof %s %s)", a[1].S, a[0].S))
	case "HasSuffix":
		need(2)
		a := args()
		return boolT(fmt.Sprintf("(str.suffixof %s %s)", a[1].S, a[0].S))
	case "Contains":
		need(2)
		a := args()
		return boolT(fmt.Sprintf("(str.contains %s %s)", a[0].S, a[1].S))
	case "Index":
		need(2)
		a := args()
		return intT(fmt.Sprintf("(str.indexof %s %s 0)", a[0].S, a[1].S))
	case "itoa":
		need(1)
		a := args()
		return strT(fmt.Sprintf("(ite (>= %s 0) (str.from_int %s) (str.++ \"-\" (str.from_int (- %s))))", a[0].S, a[0].S, a[0].S))
	case "ite":
		need(3)
		c := e.evalB(x.Args[0])
		a, b := e.eval(x.Args[1]), e.eval(x.Args[2])
		return Term{sIte(c, a.S, b.S), a.K, a.T}
	case "inmap":
		// inmap(m, k): key present
		need(2)
		a := args()
		if a[0].T != nil {
			if m, ok := a[0].T.Underlying().(*types.Map); ok {
				d, _ := fe.mapHeaps(m)
				return boolT(fmt.Sprintf("(and (not (= %s 0)) (select (select %s %s) %s))", a[0].S, fe.hget(e.st, d), a[0].S, a[1].S))
			}
		}
		e.fail("inmap on non-map")
	case "typeis":
		// typeis(x, "pkg.Type")
		need(2)
		a := e.eval(x.Args[0])
		if x.Args[1].Op != "str" {
			e.fail("typeis needs a type name string")
		}
		T, _ := e.resolveType(x.Args[1].Str)
		fe.pre.decl("(declare-fun typetag (Int) Int)")
		return boolT(fmt.Sprintf("(and (not (= %s 0)) (= (typetag %s) %d))", a.S, a.S, fe.sorts.Tag(T)))
	case "as":
		// as(x, "*pkg.Type"): the pointer held by interface value x, read at that type (meaningful where typeis(x, T) holds;
		// pointer-shaped dynamic values are represented by the pointer itself)
		need(2)
		a := e.eval(x.Args[0])
		if x.Args[1].Op != "str" {
			e.fail("as needs a type name string")
		}
		T, _ := e.resolveType(x.Args[1].Str)
		if T == nil || !isRefLike(T) {
			e.fail("as needs a pointer-like type, got %s", x.Args[1].Str)
		}
		// an interface holding a typed nil pointer is the (negative) constant boxnil_<tag>; the pointer read out of it is nil
		tag := fe.sorts.Tag(T)
		bf := "boxnil_" + fmt.Sprint(tag)
		fe.pre.decl("(declare-fun typetag (Int) Int)")
		fe.pre.decl(fmt.Sprintf("(declare-const %s Int)", bf))
		fe.pre.decl(fmt.Sprintf("(assert (< %s 0))", bf))
		fe.pre.decl(fmt.Sprintf("(assert (= (typetag %s) %d))", bf, tag))
		return Term{sIte(fmt.Sprintf("(= %s %s)", a.S, bf), "0", a.S), SInt, T}
	case "matches":
		// matches(s, "regex literal"): literal regular expression membership (unanchored, Go semantics)
		need(2)
		a := e.eval(x.Args[0])
		if x.Args[1].Op != "str" {
			e.fail("matches needs a literal pattern")
		}
		re, err := regexMatchTerm(x.Args[1].Str, a.S)
		if err != nil {
			e.fail("regex: %v", err)
		}
		return boolT(re)
	case "mapget":
		need(2)
		a := args()
		if !strings.HasPrefix(string(a[0].K), "(Array ") {
			e.fail("mapget on non-array %s", x.Args[0])
		}
		parts := strings.Fields(strings.TrimSuffix(strings.TrimPrefix(string(a[0].K), "(Array "), ")"))
		return Term{fmt.Sprintf("(select %s %s)", a[0].S, a[1].S), Sort(parts[len(parts)-1]), nil}
	case "mapset":
		need(3)
		a := args()
		return Term{fmt.Sprintf("(store %s %s %s)", a[0].S, a[1].S, a[2].S), a[0].K, nil}
	case "stored":
		// stored("Type.field"): some direct assignment to that field was executed by this function (or an inlined callee)
		need(1)
		if x.Args[0].Op != "str" {
			e.fail("stored needs a \"Type.field\" string")
		}
		return boolT(sOr(fe.storeReach[x.Args[0].Str]...))
	case "deref":
		need(1)
		a := e.eval(x.Args[0])
		if a.T != nil {
			if pt, ok := a.T.Underlying().(*types.Pointer); ok {
				return Term{fe.loadRef(e.st, a.S, pt.Elem()), fe.sorts.SortOf(pt.Elem()), pt.Elem()}
			}
		}
		e.fail("deref of non-pointer %s", x.Args[0])
	case "unix":
		need(1)
		a := args()
		return intT(fmt.Sprintf("(div %s 1000000000)", a[0].S))
	case "seconds":
		need(1)
		a := args()
		return intT(fmt.Sprintf("(* %s 1000000000)", a[0].S))
	}
	if sf, ok := fe.eng.specs.specFns[x.Name]; ok {
		return e.specApp(sf, args())
	}
	if al, ok := fe.eng.specs.specAliases[x.Name]; ok {
		fn := fe.eng.byFull[al.fc.Name]
		if al.fc.Pkg != "" {
			fn = fe.eng.lookupFunc(al.fc.Pkg, al.fc.Name)
		}
		if fn == nil {
			e.fail("spec alias %s: function %s not loaded", x.Name, al.fc.Name)
		}
		rets := fe.pureAppSpec(e.st, fullName(fn), args(), sigResults(fn.Signature))
		if al.idx >= len(rets) {
			e.fail("spec alias %s: no result %d", x.Name, al.idx)
		}
		return rets[al.idx]
	}
	// a Go function usable in specs: must be modelled as builtin or pure
	if t, ok := fe.pureCallByName(e, x.Name, args()); ok {
		return t
	}
	e.fail("unknown function %s", x.Name)
	return Term{}
}

func (e *Env) specApp(sf *SpecFunc, args []Term) Term {
	fe := e.fe
	if len(args) != len(sf.Params) {
		e.fail("%s expects %d arguments, got %d", sf.Name, len(sf.Params), len(args))
	}
	RT, rk := e.resolveType(sf.Result)
	// []byte arguments are passed by content
	conv := make([]Term, len(args))
	for i, a := range args {
		_, pk := e.resolveType(sf.Params[i].Type)
		if (sf.Params[i].Type == "bytes" || sf.Params[i].Type == "[]byte") && a.K == SSlice {
			a = strT(fe.bytesContent(e.st, a.S))
			pk = SString
		} else if sf.Params[i].Type == "bytes" || sf.Params[i].Type == "[]byte" {
			pk = SString
		}
		if a.K != pk {
			e.fail("%s: argument %d has sort %s, want %s", sf.Name, i, a.K, pk)
		}
		conv[i] = a
	}
	if sf.Result == "bytes" || sf.Result == "[]byte" {
		rk, RT = SString, types.Typ[types.String]
	}
	if sf.Body == nil {
		var ps, as []string
		for i, a := range conv {
			_ = i
			ps = append(ps, string(a.K))
			as = append(as, a.S)
		}
		name := "sf_" + sf.Name
		fe.pre.decl(fmt.Sprintf("(declare-fun %s (%s) %s)", name, strings.Join(ps, " "), rk))
		if len(as) == 0 {
			return Term{name, rk, RT}
		}
		return Term{"(" + name + " " + strings.Join(as, " ") + ")", rk, RT}
	}
	// defined: inline with parameters bound; only parameters and globals are visible
	n := &Env{fe: fe, fr: e.fr, st: e.st, old: e.old, vars: map[string]Term{}, pkg: e.pkg, calleeMode: true}
	for i, p := range sf.Params {
		t := conv[i]
		if t.T == nil {
			T, _ := e.resolveType(p.Type)
			t.T = T
		}
		n.vars[p.Name] = t
	}
	r := n.eval(sf.Body)
	if r.K != rk {
		e.fail("%s: body has sort %s, declared %s", sf.Name, r.K, rk)
	}
	if r.T == nil {
		r.T = RT
	}
	return r
}

func (e *Env) callref(x *SExpr) Term {
	fe := e.fe
	if e.fr == nil || e.fr.depth != 0 {
		e.fail("%s(...) only valid in the function's own clauses", x.Name)
	}
	if x.Name == "called" {
		css, err := fe.findCalls(x.Str)
		if err != nil {
			if strings.HasPrefix(err.Error(), "no call to") {
				return boolT("false") // no such call site at all: it is never called
			}
			e.fail("%v", err)
		}
		var rs []string
		for _, cs := range css {
			rs = append(rs, cs.reach)
		}
		return boolT(sOr(rs...))
	}
	if x.Name == "retfirst" || x.Name == "retlast" {
		css, err := fe.findCalls(x.Str)
		if err != nil {
			e.fail("%v", err)
		}
		c := css[0]
		if x.Name == "retlast" {
			c = css[len(css)-1]
		}
		if len(c.rets) < 1 {
			e.fail("call %s has no result", x.Str)
		}
		return c.rets[0]
	}
	var cs *CallSite
	if e.curCall != nil && (x.Str == e.curName || x.Str == strings.SplitN(e.curName, "#", 2)[0]) {
		cs = e.curCall
	} else {
		var err error
		cs, err = fe.findCall(x.Str)
		if err != nil && e.curCall != nil && !strings.Contains(x.Str, "#") {
			// ambiguous: prefer the last matching call that precedes the current call in the same block
			var pick *CallSite
			for _, c := range fe.calls {
				if c == e.curCall {
					break
				}
				if c.depth == 0 && c.block == e.curCall.block && contains(c.names, x.Str) {
					pick = c
				}
			}
			if pick != nil {
				cs, err = pick, nil
			}
		}
		if err != nil && e.curCall == nil && e.at != nil && !strings.Contains(x.Str, "#") {
			// ambiguous in a postcondition: the last matching call in the returning block
			var pick *CallSite
			for _, c := range fe.calls {
				if c.depth == 0 && c.block == e.at && contains(c.names, x.Str) {
					pick = c
				}
			}
			if pick != nil {
				cs, err = pick, nil
			}
		}
		if err != nil {
			e.fail("%v", err)
		}
	}
	switch x.Name {
	case "called":
		return boolT(cs.reach)
	case "ret", "ret0":
		if len(cs.rets) < 1 {
			e.fail("call %s has no result", x.Str)
		}
		return cs.rets[0]
	case "ret1", "ret2", "ret3":
		i := int(x.Name[3] - '0')
		if len(cs.rets) <= i {
			e.fail("call %s has no result %d", x.Str, i)
		}
		return cs.rets[i]
	case "recv":
		if cs.recv == nil {
			e.fail("call %s has no receiver", x.Str)
		}
		return *cs.recv
	case "arg":
		if len(x.Args) != 1 || x.Args[0].Op != "int" {
			e.fail("arg(CALL, i) needs a literal index")
		}
		i := int(x.Args[0].Int)
		if i >= len(cs.args) {
			e.fail("call %s has no argument %d", x.Str, i)
		}
		return cs.args[i]
	}
	e.fail("bad call reference")
	return Term{}
}
