package main

// Parser for the specification expression language used in contract clauses.
//
//   e ::= e <==> e | e ==> e | e || e | e && e | !e | e (==|!=|<|<=|>|>=) e | e (+|-|*|/|%) e | -e
//       | e.f | e[i] | e[a:b] | f(e,...) | ident | pkg.ident | int | "string" | true | false | nil
//       | forall x T, y U :: e | exists x T :: e | old(e)
//       | called(CALL) | ret(CALL) | ret0(CALL)..ret3(CALL) | arg(CALL, i) | recv(CALL)
//   CALL ::= callee short name, e.g.  SaveSession   (*OAuthProxy).SaveSession#1   http.Redirect

import (
	"fmt"
	"strconv"
	"strings"
)

type Binder struct {
	Name string
	Type string
}

type SExpr struct {
	Op      string // "iff","imp","or","and","not","neg","==","!=","<","<=",">",">=","+","-","*","/","%","field","index","slice","call","ident","int","str","bool","nil","forall","exists","old","callref"
	Args    []*SExpr
	Name    string // ident / field name / function name / callref kind
	Int     int64
	Str     string // string literal / callref target
	Bool    bool
	Binders []Binder
	Pos     int
}

func (e *SExpr) String() string {
	switch e.Op {
	case "ident":
		return e.Name
	case "int":
		return fmt.Sprint(e.Int)
	case "str":
		return strconv.Quote(e.Str)
	case "bool":
		return fmt.Sprint(e.Bool)
	case "nil":
		return "nil"
	case "field":
		return e.Args[0].String() + "." + e.Name
	case "call":
		var as []string
		for _, a := range e.Args {
			as = append(as, a.String())
		}
		return e.Name + "(" + strings.Join(as, ", ") + ")"
	case "callref":
		if len(e.Args) > 0 {
			return e.Name + "(" + e.Str + ", " + e.Args[0].String() + ")"
		}
		return e.Name + "(" + e.Str + ")"
	case "not", "neg":
		return map[string]string{"not": "!", "neg": "-"}[e.Op] + e.Args[0].String()
	case "addr":
		return "&" + e.Args[0].String()
	case "old":
		return "old(" + e.Args[0].String() + ")"
	case "index":
		return e.Args[0].String() + "[" + e.Args[1].String() + "]"
	case "slice":
		s := e.Args[0].String() + "["
		if e.Args[1] != nil {
			s += e.Args[1].String()
		}
		s += ":"
		if e.Args[2] != nil {
			s += e.Args[2].String()
		}
		return s + "]"
	case "forall", "exists":
		var bs []string
		for _, b := range e.Binders {
			bs = append(bs, b.Name+" "+b.Type)
		}
		return e.Op + " " + strings.Join(bs, ", ") + " :: " + e.Args[0].String()
	case "iff":
		return "(" + e.Args[0].String() + " <==> " + e.Args[1].String() + ")"
	case "imp":
		return "(" + e.Args[0].String() + " ==> " + e.Args[1].String() + ")"
	case "or":
		return "(" + e.Args[0].String() + " || " + e.Args[1].String() + ")"
	case "and":
		return "(" + e.Args[0].String() + " && " + e.Args[1].String() + ")"
	}
	if len(e.Args) == 2 {
		return "(" + e.Args[0].String() + " " + e.Op + " " + e.Args[1].String() + ")"
	}
	return e.Op
}

type specParser struct {
	src string
	pos int
}

func parseSpec(src string) (e *SExpr, err error) {
	p := &specParser{src: src}
	defer func() {
		if r := recover(); r != nil {
			if pe, ok := r.(specErr); ok {
				err = fmt.Errorf("spec parse error at %d in %q: %s", p.pos, src, string(pe))
				return
			}
			panic(r)
		}
	}()
	e = p.parseIff()
	p.ws()
	if p.pos != len(p.src) {
		p.fail("unexpected trailing input %q", p.src[p.pos:])
	}
	return e, nil
}

type specErr string

func (p *specParser) fail(f string, a ...interface{}) { panic(specErr(fmt.Sprintf(f, a...))) }

func (p *specParser) ws() {
	for p.pos < len(p.src) && (p.src[p.pos] == ' ' || p.src[p.pos] == '\t' || p.src[p.pos] == '\n') {
		p.pos++
	}
}

func (p *specParser) peek(s string) bool {
	p.ws()
	return strings.HasPrefix(p.src[p.pos:], s)
}

func (p *specParser) eat(s string) bool {
	if p.peek(s) {
		p.pos += len(s)
		return true
	}
	return false
}

func (p *specParser) expect(s string) {
	if !p.eat(s) {
		p.fail("expected %q", s)
	}
}

func (p *specParser) parseIff() *SExpr {
	l := p.parseImp()
	for p.eat("<==>") {
		r := p.parseImp()
		l = &SExpr{Op: "iff", Args: []*SExpr{l, r}}
	}
	return l
}

func (p *specParser) parseImp() *SExpr {
	l := p.parseOr()
	if p.peek("==>") {
		p.pos += 3
		r := p.parseImp()
		return &SExpr{Op: "imp", Args: []*SExpr{l, r}}
	}
	return l
}

func (p *specParser) parseOr() *SExpr {
	l := p.parseAnd()
	for p.eat("||") {
		r := p.parseAnd()
		l = &SExpr{Op: "or", Args: []*SExpr{l, r}}
	}
	return l
}

func (p *specParser) parseAnd() *SExpr {
	l := p.parseCmp()
	for p.eat("&&") {
		r := p.parseCmp()
		l = &SExpr{Op: "and", Args: []*SExpr{l, r}}
	}
	return l
}

func (p *specParser) parseCmp() *SExpr {
	l := p.parseAdd()
	p.ws()
	for _, op := range []string{"==>", "<==>"} { // not comparison operators
		if strings.HasPrefix(p.src[p.pos:], op) {
			return l
		}
	}
	for _, op := range []string{"==", "!=", "<=", ">=", "<", ">"} {
		if strings.HasPrefix(p.src[p.pos:], op) {
			p.pos += len(op)
			r := p.parseAdd()
			return &SExpr{Op: op, Args: []*SExpr{l, r}}
		}
	}
	return l
}

func (p *specParser) parseAdd() *SExpr {
	l := p.parseMul()
	for {
		p.ws()
		if p.pos < len(p.src) && (p.src[p.pos] == '+' || p.src[p.pos] == '-') {
			op := string(p.src[p.pos])
			p.pos++
			r := p.parseMul()
			l = &SExpr{Op: op, Args: []*SExpr{l, r}}
			continue
		}
		return l
	}
}

func (p *specParser) parseMul() *SExpr {
	l := p.parseUnary()
	for {
		p.ws()
		if p.pos < len(p.src) && (p.src[p.pos] == '*' || p.src[p.pos] == '/' || p.src[p.pos] == '%') {
			op := string(p.src[p.pos])
			p.pos++
			r := p.parseUnary()
			l = &SExpr{Op: op, Args: []*SExpr{l, r}}
			continue
		}
		return l
	}
}

func (p *specParser) parseUnary() *SExpr {
	p.ws()
	if p.pos < len(p.src) && p.src[p.pos] == '!' && !strings.HasPrefix(p.src[p.pos:], "!=") {
		p.pos++
		return &SExpr{Op: "not", Args: []*SExpr{p.parseUnary()}}
	}
	if p.pos < len(p.src) && p.src[p.pos] == '-' {
		p.pos++
		return &SExpr{Op: "neg", Args: []*SExpr{p.parseUnary()}}
	}
	if p.pos < len(p.src) && p.src[p.pos] == '&' && !strings.HasPrefix(p.src[p.pos:], "&&") {
		p.pos++
		return &SExpr{Op: "addr", Args: []*SExpr{p.parsePostfix()}}
	}
	return p.parsePostfix()
}

func isIdentStart(c byte) bool {
	return c == '_' || (c >= 'a' && c <= 'z') || (c >= 'A' && c <= 'Z')
}
func isIdentChar(c byte) bool { return isIdentStart(c) || (c >= '0' && c <= '9') }

func (p *specParser) ident() string {
	p.ws()
	s := p.pos
	if p.pos >= len(p.src) || !isIdentStart(p.src[p.pos]) {
		p.fail("identifier expected")
	}
	for p.pos < len(p.src) && isIdentChar(p.src[p.pos]) {
		p.pos++
	}
	return p.src[s:p.pos]
}

var callrefKinds = map[string]bool{"called": true, "ret": true, "ret0": true, "ret1": true, "ret2": true, "ret3": true, "arg": true, "recv": true, "retfirst": true, "retlast": true}

func (p *specParser) parsePostfix() *SExpr {
	e := p.parsePrimary()
	for {
		p.ws()
		if p.pos >= len(p.src) {
			return e
		}
		switch p.src[p.pos] {
		case '.':
			p.pos++
			name := p.ident()
			e = &SExpr{Op: "field", Name: name, Args: []*SExpr{e}}
		case '[':
			p.pos++
			var lo, hi *SExpr
			if !p.peek(":") {
				lo = p.parseIff()
			}
			if p.eat(":") {
				if !p.peek("]") {
					hi = p.parseIff()
				}
				p.expect("]")
				e = &SExpr{Op: "slice", Args: []*SExpr{e, lo, hi}}
			} else {
				p.expect("]")
				e = &SExpr{Op: "index", Args: []*SExpr{e, lo}}
			}
		case '(':
			// function call: e must be ident or pkg.ident
			name := ""
			switch e.Op {
			case "ident":
				name = e.Name
			case "field":
				if e.Args[0].Op == "ident" {
					name = e.Args[0].Name + "." + e.Name
				}
			}
			if name == "" {
				return e
			}
			p.pos++
			var args []*SExpr
			if !p.peek(")") {
				for {
					args = append(args, p.parseIff())
					if !p.eat(",") {
						break
					}
				}
			}
			p.expect(")")
			e = &SExpr{Op: "call", Name: name, Args: args}
		default:
			return e
		}
	}
}

func (p *specParser) parseType() string {
	p.ws()
	s := p.pos
	for p.pos < len(p.src) {
		c := p.src[p.pos]
		if isIdentChar(c) || c == '[' || c == ']' || c == '*' || c == '.' {
			p.pos++
			continue
		}
		break
	}
	if s == p.pos {
		p.fail("type expected")
	}
	return p.src[s:p.pos]
}

func (p *specParser) parsePrimary() *SExpr {
	p.ws()
	if p.pos >= len(p.src) {
		p.fail("unexpected end")
	}
	c := p.src[p.pos]
	switch {
	case c == '(':
		p.pos++
		e := p.parseIff()
		p.expect(")")
		return e
	case c == '"':
		// Go string literal
		s := p.pos
		p.pos++
		for p.pos < len(p.src) && p.src[p.pos] != '"' {
			if p.src[p.pos] == '\\' {
				p.pos++
			}
			p.pos++
		}
		p.pos++
		if p.pos > len(p.src) {
			p.fail("unterminated string")
		}
		v, err := strconv.Unquote(p.src[s:p.pos])
		if err != nil {
			p.fail("bad string literal %s", p.src[s:p.pos])
		}
		return &SExpr{Op: "str", Str: v}
	case c == '`':
		s := p.pos + 1
		p.pos++
		for p.pos < len(p.src) && p.src[p.pos] != '`' {
			p.pos++
		}
		if p.pos >= len(p.src) {
			p.fail("unterminated raw string")
		}
		v := p.src[s:p.pos]
		p.pos++
		return &SExpr{Op: "str", Str: v}
	case c == '\'':
		s := p.pos
		p.pos++
		for p.pos < len(p.src) && p.src[p.pos] != '\'' {
			if p.src[p.pos] == '\\' {
				p.pos++
			}
			p.pos++
		}
		p.pos++
		v, _, _, err := strconv.UnquoteChar(p.src[s+1:p.pos-1], '\'')
		if err != nil {
			p.fail("bad char literal")
		}
		return &SExpr{Op: "int", Int: int64(v)}
	case c >= '0' && c <= '9':
		s := p.pos
		for p.pos < len(p.src) && (p.src[p.pos] >= '0' && p.src[p.pos] <= '9') {
			p.pos++
		}
		v, _ := strconv.ParseInt(p.src[s:p.pos], 10, 64)
		return &SExpr{Op: "int", Int: v}
	case isIdentStart(c):
		name := p.ident()
		switch name {
		case "true", "false":
			return &SExpr{Op: "bool", Bool: name == "true"}
		case "nil":
			return &SExpr{Op: "nil"}
		case "forall", "exists":
			var bs []Binder
			for {
				n := p.ident()
				t := p.parseType()
				bs = append(bs, Binder{n, t})
				if !p.eat(",") {
					break
				}
			}
			p.expect("::")
			body := p.parseIff()
			return &SExpr{Op: name, Binders: bs, Args: []*SExpr{body}}
		case "old":
			if p.peek("(") {
				p.expect("(")
				e := p.parseIff()
				p.expect(")")
				return &SExpr{Op: "old", Args: []*SExpr{e}}
			}
		}
		if callrefKinds[name] && p.peek("(") {
			p.expect("(")
			// raw scan of the call target up to a top-level ',' or ')'
			s := p.pos
			depth := 0
			for p.pos < len(p.src) {
				ch := p.src[p.pos]
				if ch == '(' {
					depth++
				} else if ch == ')' {
					if depth == 0 {
						break
					}
					depth--
				} else if ch == ',' && depth == 0 {
					break
				}
				p.pos++
			}
			target := strings.TrimSpace(p.src[s:p.pos])
			e := &SExpr{Op: "callref", Name: name, Str: target}
			if p.eat(",") {
				e.Args = []*SExpr{p.parseIff()}
			}
			p.expect(")")
			return e
		}
		return &SExpr{Op: "ident", Name: name}
	}
	p.fail("unexpected character %q", string(c))
	return nil
}
