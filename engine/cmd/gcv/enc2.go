package main

// SSA -> SMT encoder: control flow, loops, instructions.

import (
	"fmt"
	"go/token"
	"go/types"
	"os"
	"strings"

	"golang.org/x/tools/go/ssa"
)

type Exit struct {
	cond    string
	results []Term
	st      *State
	ret     *ssa.Return
	nline   int // body lines written when the return was reached
}

func isBackEdge(from, to *ssa.BasicBlock) bool { return to.Dominates(from) }

func rpo(fn *ssa.Function) []*ssa.BasicBlock {
	seen := map[*ssa.BasicBlock]bool{}
	var post []*ssa.BasicBlock
	var dfs func(b *ssa.BasicBlock)
	dfs = func(b *ssa.BasicBlock) {
		seen[b] = true
		for _, s := range b.Succs {
			if !seen[s] && !isBackEdge(b, s) {
				dfs(s)
			}
		}
		post = append(post, b)
	}
	if len(fn.Blocks) > 0 {
		dfs(fn.Blocks[0])
	}
	for i, j := 0, len(post)-1; i < j; i, j = i+1, j-1 {
		post[i], post[j] = post[j], post[i]
	}
	return post
}

func findLoops(fn *ssa.Function) map[*ssa.BasicBlock]*loopInfo {
	loops := map[*ssa.BasicBlock]*loopInfo{}
	for _, b := range fn.Blocks {
		for _, s := range b.Succs {
			if isBackEdge(b, s) {
				li := loops[s]
				if li == nil {
					li = &loopInfo{header: s, body: map[*ssa.BasicBlock]bool{s: true}}
					loops[s] = li
					for _, in := range s.Instrs {
						if p, ok := in.(*ssa.Phi); ok {
							li.phis = append(li.phis, p)
						}
					}
				}
				// natural loop of back edge b->s
				stack := []*ssa.BasicBlock{b}
				for len(stack) > 0 {
					x := stack[len(stack)-1]
					stack = stack[:len(stack)-1]
					if li.body[x] {
						continue
					}
					li.body[x] = true
					stack = append(stack, x.Preds...)
				}
			}
		}
	}
	return loops
}

// encodeFrame encodes the body of fr.fn starting in state entry; returns the exits (returns).
func (fr *Frame) encode(entry *State) []Exit {
	fn := fr.fn
	fr.edges = map[edgeKey]*edgeInfo{}
	fr.loopCtx = findLoops(fn)
	fr.blockIn = map[*ssa.BasicBlock]*State{}
	fr.deferReach = map[*ssa.Defer]string{}
	var exits []Exit
	order := rpo(fn)
	for _, b := range order {
		var st *State
		if b == fn.Blocks[0] {
			st = entry.clone()
		} else {
			st = fr.mergeIn(b)
			if st == nil {
				continue // unreachable
			}
		}
		if li := fr.loopCtx[b]; li != nil {
			fr.cutLoop(li, st)
		}
		fr.blockIn[b] = st.clone()
		for _, in := range b.Instrs {
			if ex := fr.instr(b, in, st); ex != nil {
				exits = append(exits, *ex)
			}
		}
	}
	// back edges are checked once the whole body is encoded, so that ghost steps and invariants may refer to any call
	// of the loop body (a call that is not on the path of an edge is simply not reached there)
	for _, b := range fr.pendingBack {
		fr.backEdges(b, nil)
	}
	fr.pendingBack = nil
	return exits
}

// incoming non-back edges of b, in Preds order (with the phi edge index)
type inEdge struct {
	predIdx int
	info    *edgeInfo
}

func (fr *Frame) inEdges(b *ssa.BasicBlock, back bool) []inEdge {
	var out []inEdge
	used := map[edgeKey]bool{}
	for i, p := range b.Preds {
		if isBackEdge(p, b) != back {
			continue
		}
		// find the successor slot of p that leads to b and has not been consumed
		for si, s := range p.Succs {
			k := edgeKey{p, si}
			if s == b && !used[k] {
				used[k] = true
				if e, ok := fr.edges[k]; ok {
					out = append(out, inEdge{i, e})
				}
				break
			}
		}
	}
	return out
}

func (fr *Frame) mergeIn(b *ssa.BasicBlock) *State {
	fe := fr.fe
	ins := fr.inEdges(b, false)
	if len(ins) == 0 {
		return nil
	}
	var conds []string
	for _, e := range ins {
		conds = append(conds, e.info.cond)
	}
	reach := sOr(conds...)
	rn := fe.define(fr.prefix+fmt.Sprintf("reach_b%d", b.Index), SBool, reach)
	st := &State{heap: map[string]string{}, alive: rn}
	for _, h := range sortedKeys(fe.heapSorts) {
		first := fe.hget(ins[0].info.st, h)
		same := true
		for _, e := range ins[1:] {
			if fe.hget(e.info.st, h) != first {
				same = false
			}
		}
		if same {
			st.heap[h] = first
			continue
		}
		expr := fe.hget(ins[len(ins)-1].info.st, h)
		for i := len(ins) - 2; i >= 0; i-- {
			expr = sIte(ins[i].info.cond, fe.hget(ins[i].info.st, h), expr)
		}
		n := fe.fresh(h + "_m")
		fe.define(n, fe.heapSorts[h], expr)
		st.heap[h] = n
	}
	return st
}

// loopWrites computes which heaps the loop body may write; all=true when an impure call occurs.
func (fr *Frame) loopWrites(li *loopInfo) (hs map[string]bool, all bool) {
	fe := fr.fe
	hs = map[string]bool{}
	for _, b := range sortedBlocks(li.body) {
		for _, in := range b.Instrs {
			switch x := in.(type) {
			case *ssa.Store:
				fe.heapsWrittenByStore(x.Addr, hs)
			case *ssa.MapUpdate:
				d, v := fe.mapHeaps(x.Map.Type().Underlying().(*types.Map))
				hs[d], hs[v], hs["HMlen"] = true, true, true
			case ssa.CallInstruction:
				if !fe.callIsHeapNeutral(x) {
					all = true
				} else {
					for _, h := range fe.callWrites(x) {
						hs[h] = true
					}
				}
			}
		}
	}
	return
}

func (fe *FuncEnc) heapsOfAllocLike(in ssa.Instruction, hs map[string]bool) {
	switch x := in.(type) {
	case *ssa.Convert:
		if isByteSlice(x.Type()) {
			hs["HB"] = true
			fe.heapDecl("HB", "(Array Int String)")
		}
	case *ssa.MakeSlice:
		h, _, _ := fe.sliceHeap(x.Type().Underlying().(*types.Slice).Elem())
		hs[h] = true
	case *ssa.Alloc:
		T := x.Type().Underlying().(*types.Pointer).Elem()
		if isTimeTime(T) {
			h, _ := fe.ptrHeap(T)
			hs[h] = true
			return
		}
		switch u := T.Underlying().(type) {
		case *types.Struct:
			for i := 0; i < u.NumFields(); i++ {
				h, _ := fe.fieldHeap(T, i)
				hs[h] = true
			}
		case *types.Array:
			h, _, _ := fe.sliceHeap(u.Elem())
			hs[h] = true
		default:
			h, _ := fe.ptrHeap(T)
			hs[h] = true
		}
	case *ssa.MakeMap:
		d, v := fe.mapHeaps(x.Type().Underlying().(*types.Map))
		hs[d], hs[v], hs["HMlen"] = true, true, true
	}
}

// cutLoop: st is the merged state over loop-entry edges. Emits inv-init, havocs, assumes invariants.
func (fr *Frame) cutLoop(li *loopInfo, st *State) {
	fe := fr.fe
	fe.curState = st
	ord := fr.loopOrdinal(li.header)
	invs := fr.loopInvariants(ord)
	entries := fr.inEdges(li.header, false)
	ghosts := fr.loopGhosts(ord)
	// inv-init on each entry edge
	if fr.depth == 0 {
		for _, inv := range invs {
			for _, e := range entries {
				env := fr.envAt(e.info.st)
				env.phiEdge = &phiSel{block: li.header, predIdx: e.predIdx}
				env.scopeAt = li.header.Preds[e.predIdx]
				for _, g := range ghosts {
					if t, err := env.evalTop(g.Init); err == nil {
						env.vars[g.Name] = t
					}
				}
				f, err := env.evalBool(inv.Expr)
				fe.addOblig(&Oblig{Kind: "inv-init", Props: inv.Props, Label: fmt.Sprintf("loop%d:%s", ord, inv.Label),
					Reach: e.info.cond, Formula: f, Src: inv.Src, Pos: fr.pos(li.header.Instrs[0].Pos())}, err)
			}
		}
	}
	// havoc heaps written in the loop
	hs, all := fr.loopWrites(li)
	fe.loopWritten = map[string]bool{}
	for b := range li.body {
		for _, in := range b.Instrs {
			stI, ok := in.(*ssa.Store)
			if !ok {
				continue
			}
			root := stI.Addr
			for {
				if f, ok := root.(*ssa.FieldAddr); ok {
					root = f.X
					continue
				}
				if ia, ok := root.(*ssa.IndexAddr); ok {
					root = ia.X
					continue
				}
				break
			}
			if al, ok := root.(*ssa.Alloc); ok {
				if t, ok := fr.vals[al]; ok {
					fe.loopWritten[t.S] = true
				}
			}
		}
	}
	defer func() { fe.loopWritten = nil }()
	if all {
		fe.havocHeaps(st, "loop", nil)
	} else {
		fe.havocHeaps(st, "loop", func(n string) bool { return hs[n] })
	}
	// phis: fresh values
	for _, p := range li.phis {
		t := fr.setHavoc(p)
		// automatic counter invariant: phi = init const on entry, phi' = phi + c (c>0) on back edges  ==> phi >= init
		if fe.sorts.SortOf(p.Type()) == SInt {
			if lo, ok := fr.counterLowerBound(li, p); ok {
				fe.assume(fmt.Sprintf("(>= %s %s)", t.S, lo))
			}
		}
	}
	// ghost accumulators: arbitrary value at the loop head
	li.ghosts = map[string]Term{}
	for _, g := range ghosts {
		k := specSort(g.Sort)
		n := fe.fresh(fr.prefix + "ghost_" + g.Name)
		fe.declConst(n, k)
		T, _ := fr.envAt(st).resolveType(g.Sort)
		li.ghosts[g.Name] = Term{n, k, T}
	}
	// From here on the state is "some iteration": its path condition gets a fresh Boolean so that the invariants assumed
	// for it are not available to the obligations on the entry edges. (Without it the entry-edge condition implies the
	// head's condition, and for state the loop does not modify the head's terms ARE the entry's terms: inv-init then
	// follows from the assumption it is meant to justify — measured: cookieSignature keyed with the wrong argument verified.)
	if len(invs) > 0 {
		cut := fe.fresh(fr.prefix + "cut")
		fe.declConst(cut, SBool)
		st.alive = fe.define(fe.fresh(fr.prefix+"alive"), SBool, sAnd(st.alive, cut))
	}
	// assume invariants
	for _, inv := range invs {
		env := fr.envAt(st)
		env.loopHdr = li.header
		env.scopeAt = li.header
		for n, t := range li.ghosts {
			env.vars[n] = t
		}
		f, err := env.evalBool(inv.Expr)
		if err == nil {
			fe.assume(sImp(st.alive, f))
		}
	}
}

func (fr *Frame) counterLowerBound(li *loopInfo, p *ssa.Phi) (string, bool) {
	var init *ssa.Const
	for i, e := range p.Edges {
		pred := p.Block().Preds[i]
		if isBackEdge(pred, p.Block()) {
			b, ok := e.(*ssa.BinOp)
			if !ok || b.Op != token.ADD {
				return "", false
			}
			c, ok := b.Y.(*ssa.Const)
			if b.X != ssa.Value(p) || !ok || c.Value == nil {
				return "", false
			}
			if v, ok2 := constInt(c); !ok2 || v <= 0 {
				return "", false
			}
		} else {
			c, ok := e.(*ssa.Const)
			if !ok || c.Value == nil {
				return "", false
			}
			if init != nil && init.Value.ExactString() != c.Value.ExactString() {
				return "", false
			}
			init = c
		}
	}
	if init == nil {
		return "", false
	}
	return fr.fe.constTerm(init).S, true
}

func constInt(c *ssa.Const) (int64, bool) {
	if c.Value == nil {
		return 0, false
	}
	if b, ok := c.Type().Underlying().(*types.Basic); !ok || b.Info()&types.IsInteger == 0 {
		return 0, false
	}
	return c.Int64(), true
}

// loopOrdinal: loops numbered by source position of their header.
func (fr *Frame) loopOrdinal(h *ssa.BasicBlock) int {
	var hs []*ssa.BasicBlock
	for b := range fr.loopCtx {
		hs = append(hs, b)
	}
	pos := func(b *ssa.BasicBlock) token.Pos {
		for _, in := range b.Instrs {
			if in.Pos() != token.NoPos {
				return in.Pos()
			}
		}
		// fall back to first positioned instruction in successors
		for _, s := range b.Succs {
			for _, in := range s.Instrs {
				if in.Pos() != token.NoPos {
					return in.Pos()
				}
			}
		}
		return token.Pos(b.Index)
	}
	n := 0
	for _, b := range hs {
		if b != h && (pos(b) < pos(h) || (pos(b) == pos(h) && b.Index < h.Index)) {
			n++
		}
	}
	if os.Getenv("GCV_DEBUG_LOOPS") != "" {
		fmt.Fprintf(os.Stderr, "loopOrdinal %s header b%d pos %v -> %d\n", fr.fn.Name(), h.Index, fr.fe.eng.prog.Fset.Position(pos(h)), n)
	}
	return n
}

func (fr *Frame) loopGhosts(ord int) []*GhostVar {
	if fr.depth != 0 || fr.fe.fc == nil || fr.fe.fc.LoopGhost == nil {
		return nil
	}
	return fr.fe.fc.LoopGhost[ord]
}

func (fr *Frame) loopInvariants(ord int) []*Clause {
	if fr.depth != 0 || fr.fe.fc == nil {
		return nil
	}
	return fr.fe.fc.LoopInv[ord]
}

func (fr *Frame) pos(p token.Pos) token.Position {
	return fr.fe.eng.prog.Fset.Position(p)
}

// safety emits a safety obligation (top frame only) and conjoins the condition to alive.
// obligationOnly: a safety obligation that is not itself a panic point (passing nil to a callee that assumes non-nil):
// emitted in sweep mode, never assumed afterwards — the path continues whether or not it holds.
func (fr *Frame) obligationOnly(st *State, in ssa.Instruction, kind, what, cond string) {
	fe := fr.fe
	if cond == "true" {
		return
	}
	if fr.depth == 0 && fe.eng.safetyOn(fe) {
		label := kind + ":" + what
		fe.opCount[label]++
		if n := fe.opCount[label]; n > 1 {
			label = fmt.Sprintf("%s#%d", label, n-1)
		}
		fe.addOblig(&Oblig{Kind: "safety", Props: fe.eng.safetyProps(fe), Label: label, Reach: st.alive, Formula: cond,
			Src: kind + " " + what, Pos: fr.pos(in.Pos())}, nil)
	}
}

func (fr *Frame) safety(st *State, in ssa.Instruction, kind, what, cond string) {
	fe := fr.fe
	if cond == "true" {
		return
	}
	if fr.depth == 0 && fe.eng.safetyOn(fe) {
		label := kind + ":" + what
		fe.opCount[label]++
		if n := fe.opCount[label]; n > 1 {
			label = fmt.Sprintf("%s#%d", label, n-1)
		}
		fe.addOblig(&Oblig{Kind: "safety", Props: fe.eng.safetyProps(fe), Label: label, Reach: st.alive, Formula: cond,
			Src: kind + " " + what, Pos: fr.pos(in.Pos())}, nil)
	}
	an := fe.define(fe.fresh(fr.prefix+"alive"), SBool, sAnd(st.alive, cond))
	st.alive = an
}

func (fe *FuncEnc) addOblig(o *Oblig, err error) {
	if err != nil {
		o.Err = err.Error()
	}
	o.Fn = fe.eng.displayName(fe.fn)
	o.prel = fe.pre
	if o.nline == 0 {
		o.nline = len(fe.pre.body)
	}
	o.fn = fe.fn
	o.heapNames = fe.heapSorts
	o.sorts = fe.sorts
	if fe.top != nil {
		o.paramTerms = fe.top.params
	}
	fe.obls = append(fe.obls, o)
}

// describe gives a stable, source-level description of a value for obligation labels.
func describe(v ssa.Value, depth int) string {
	if depth > 4 {
		return "_"
	}
	switch x := v.(type) {
	case *ssa.Parameter:
		return x.Name()
	case *ssa.FreeVar:
		return x.Name()
	case *ssa.Const:
		if x.Value == nil {
			return "nil"
		}
		s := x.Value.ExactString()
		if len(s) > 20 {
			s = s[:20]
		}
		return s
	case *ssa.Global:
		return x.Name()
	case *ssa.UnOp:
		if x.Op == token.MUL {
			return describe(x.X, depth+1)
		}
		return x.Op.String() + describe(x.X, depth+1)
	case *ssa.FieldAddr:
		st := x.X.Type().Underlying().(*types.Pointer).Elem().Underlying().(*types.Struct)
		return describe(x.X, depth+1) + "." + st.Field(x.Field).Name()
	case *ssa.Field:
		st := x.X.Type().Underlying().(*types.Struct)
		return describe(x.X, depth+1) + "." + st.Field(x.Field).Name()
	case *ssa.IndexAddr:
		return describe(x.X, depth+1) + "[" + describe(x.Index, depth+1) + "]"
	case *ssa.Index:
		return describe(x.X, depth+1) + "[" + describe(x.Index, depth+1) + "]"
	case *ssa.Lookup:
		return describe(x.X, depth+1) + "[" + describe(x.Index, depth+1) + "]"
	case *ssa.Slice:
		s := describe(x.X, depth+1) + "["
		if x.Low != nil {
			s += describe(x.Low, depth+1)
		}
		s += ":"
		if x.High != nil {
			s += describe(x.High, depth+1)
		}
		return s + "]"
	case *ssa.Call:
		return callShort(x) + "()"
	case *ssa.Extract:
		return describe(x.Tuple, depth+1) + fmt.Sprintf(".%d", x.Index)
	case *ssa.Phi:
		if x.Comment != "" {
			return x.Comment
		}
		return "phi"
	case *ssa.BinOp:
		return describe(x.X, depth+1) + x.Op.String() + describe(x.Y, depth+1)
	case *ssa.Alloc:
		if x.Comment != "" {
			return x.Comment
		}
		return "alloc"
	case *ssa.Convert:
		return describe(x.X, depth+1)
	case *ssa.ChangeType:
		return describe(x.X, depth+1)
	case *ssa.TypeAssert:
		return describe(x.X, depth+1) + ".(" + typeKey(x.AssertedType) + ")"
	case *ssa.MakeInterface:
		return describe(x.X, depth+1)
	case *ssa.Function:
		return x.Name()
	}
	return "_"
}

func callShort(c ssa.CallInstruction) string {
	cc := c.Common()
	if cc.IsInvoke() {
		return cc.Method.Name()
	}
	if f := cc.StaticCallee(); f != nil {
		return f.Name()
	}
	if b, ok := cc.Value.(*ssa.Builtin); ok {
		return b.Name()
	}
	return describe(cc.Value, 1)
}

func (fr *Frame) nonNilByConstruction(v ssa.Value) bool {
	switch x := v.(type) {
	case *ssa.Alloc, *ssa.FieldAddr, *ssa.IndexAddr, *ssa.Global, *ssa.Function, *ssa.MakeClosure, *ssa.MakeMap, *ssa.MakeChan, *ssa.MakeInterface:
		return true
	case *ssa.Parameter:
		return fr.depth == 0 && !fr.fe.nilableParam(x.Name())
	case *ssa.FreeVar:
		return fr.depth == 0 && !fr.fe.nilableParam(x.Name())
	case *ssa.ChangeType:
		return fr.nonNilByConstruction(x.X)
	}
	return false
}

func (fr *Frame) nilCheck(st *State, in ssa.Instruction, p ssa.Value) {
	if fr.nonNilByConstruction(p) {
		return
	}
	fr.safety(st, in, "nil-deref", describe(p, 0), fmt.Sprintf("(not (= %s 0))", fr.val(p).S))
}

// instr translates one instruction. Returns an Exit for Return instructions.
func (fr *Frame) instr(b *ssa.BasicBlock, in ssa.Instruction, st *State) *Exit {
	fe := fr.fe
	fe.curState = st
	fe.curGuard = st.alive
	defer func() { fe.curGuard = "" }()
	switch x := in.(type) {
	case *ssa.DebugRef:
		return nil
	case *ssa.Alloc:
		T := x.Type().Underlying().(*types.Pointer).Elem()
		r := fe.newRef(fr.name(x))
		fr.vals[x] = Term{r, SInt, x.Type()}
		fe.initRef(st, r, T, fe.zeroOf(T))
		for _, g := range fe.eng.specs.ghostZero[typeKey(T)] {
			if h, _, ok := fe.ghostHeap(g); ok {
				z := map[Sort]string{SString: "\"\"", SInt: "0", SBool: "false"}[fe.eng.specs.ghosts[g]]
				if z != "" {
					fe.assume(fmt.Sprintf("(= (select %s %s) %s)", fe.hget(st, h), r, z))
				}
			}
		}
		if !fe.escapes(x) {
			fe.protected[r] = T
		}
	case *ssa.FieldAddr:
		switch x.X.(type) {
		case *ssa.FieldAddr, *ssa.IndexAddr:
		default:
			fr.nilCheck(st, in, x.X)
		}
		// as a first-class value: an abstract interior pointer
		stT := x.X.Type().Underlying().(*types.Pointer).Elem()
		fn := "faddr_" + mangle(typeKey(stT))
		if len(fn) > 70 {
			fn = fn[:70]
		}
		fn += fmt.Sprintf("_%d", x.Field)
		fe.pre.decl(fmt.Sprintf("(declare-fun %s (Int) Int)", fn))
		base := fr.val(x.X).S
		t := fr.setVal(x, fmt.Sprintf("(%s %s)", fn, base))
		// the address of a field of a non-nil struct is a genuine (positive) pointer: not nil, and not one of the negative
		// constants that stand for an interface holding a typed nil
		fe.assume(fmt.Sprintf("(=> (not (= %s 0)) (> %s 0))", base, t.S))
	case *ssa.IndexAddr:
		idx := fr.val(x.Index).S
		switch t := x.X.Type().Underlying().(type) {
		case *types.Slice:
			s := fr.val(x.X).S
			fr.safety(st, in, "index", describe(x, 0), fmt.Sprintf("(and (<= 0 %s) (< %s (s_len %s)))", idx, idx, s))
		case *types.Pointer:
			fr.nilCheck(st, in, x.X)
			n := t.Elem().Underlying().(*types.Array).Len()
			fr.safety(st, in, "index", describe(x, 0), fmt.Sprintf("(and (<= 0 %s) (< %s %d))", idx, idx, n))
		}
		fe.pre.decl("(declare-fun eaddr (Int Int) Int)")
		switch x.X.Type().Underlying().(type) {
		case *types.Slice:
			s := fr.val(x.X).S
			fr.setVal(x, fmt.Sprintf("(eaddr (s_base %s) (+ (s_off %s) %s))", s, s, idx))
		default:
			fr.setVal(x, fmt.Sprintf("(eaddr %s %s)", fr.val(x.X).S, idx))
		}
	case *ssa.Field:
		ss := fe.sorts.structInfo(fe.sorts.SortOf(x.X.Type()))
		if ss == nil {
			fr.setHavoc(x)
		} else {
			t := fr.setVal(x, fmt.Sprintf("(%s %s)", ss.fnames[x.Field], fr.val(x.X).S))
			// a field read out of a struct value (value receivers): the declared non-nil invariant of that field
			if stT, ok := x.X.Type().Underlying().(*types.Struct); ok && fe.eng.specs.isNonNil(x.X.Type(), stT.Field(x.Field).Name()) {
				fe.assumeNonNilValue(st, t)
			}
		}
	case *ssa.Index:
		idx := fr.val(x.Index).S
		switch t := x.X.Type().Underlying().(type) {
		case *types.Array:
			fr.safety(st, in, "index", describe(x, 0), fmt.Sprintf("(and (<= 0 %s) (< %s %d))", idx, idx, t.Len()))
			if isByteArray(x.X.Type()) {
				fr.setVal(x, fmt.Sprintf("(str.to_code (str.at %s %s))", fr.val(x.X).S, idx))
			} else {
				fr.setVal(x, fmt.Sprintf("(select %s %s)", fr.val(x.X).S, idx))
			}
		case *types.Basic: // string
			s := fr.val(x.X).S
			fr.safety(st, in, "index", describe(x, 0), fmt.Sprintf("(and (<= 0 %s) (< %s (str.len %s)))", idx, idx, s))
			fr.setVal(x, fmt.Sprintf("(str.to_code (str.at %s %s))", s, idx))
		default:
			fr.setHavoc(x)
		}
	case *ssa.UnOp:
		fr.unop(b, x, st)
	case *ssa.BinOp:
		fr.binop(x, st)
	case *ssa.Phi:
		if _, done := fr.vals[x]; done && fr.loopCtx[b] != nil {
			return nil // loop-header phi already havocked
		}
		ins := fr.inEdges(b, false)
		if len(ins) == 0 {
			fr.setHavoc(x)
			return nil
		}
		expr := fr.val(x.Edges[ins[len(ins)-1].predIdx]).S
		for i := len(ins) - 2; i >= 0; i-- {
			expr = sIte(ins[i].info.cond, fr.val(x.Edges[ins[i].predIdx]).S, expr)
		}
		fr.setVal(x, expr)
	case *ssa.Store:
		a := fr.addrOf(x.Addr)
		if a.kind == aRef {
			fr.nilCheck(st, in, x.Addr)
		}
		fr.checkFrame(st, in, x.Addr)
		if fa, ok := x.Addr.(*ssa.FieldAddr); ok {
			stT := fa.X.Type().Underlying().(*types.Pointer).Elem()
			tn := typeKey(stT)
			if i := strings.LastIndex(tn, "."); i >= 0 {
				tn = tn[i+1:]
			}
			key := tn + "." + stT.Underlying().(*types.Struct).Field(fa.Field).Name()
			fe.storeReach[key] = append(fe.storeReach[key], st.alive)
		}
		fe.storeAddr(st, a, fr.val(x.Val).S)
	case *ssa.Call:
		fr.encodeCall(x, st)
	case *ssa.Defer:
		fr.defers = append(fr.defers, x)
		fr.deferReach[x] = st.alive
	case *ssa.Go:
		fe.note("go statement in %s (not modelled)", relName(fr.fn))
	case *ssa.RunDefers:
		for i := len(fr.defers) - 1; i >= 0; i-- {
			fr.encodeDeferred(fr.defers[i], st)
		}
	case *ssa.Extract:
		if ts, ok := fr.tuples[x.Tuple]; ok && x.Index < len(ts) {
			fr.vals[x] = ts[x.Index]
		} else {
			fr.setHavoc(x)
		}
	case *ssa.Convert:
		fr.convert(x, st)
	case *ssa.ChangeType:
		fr.vals[x] = Term{fr.val(x.X).S, fe.sorts.SortOf(x.Type()), x.Type()}
	case *ssa.ChangeInterface:
		fr.vals[x] = Term{fr.val(x.X).S, SInt, x.Type()}
	case *ssa.MakeInterface:
		fr.makeInterface(x)
	case *ssa.TypeAssert:
		fr.typeAssert(x, st)
	case *ssa.MakeClosure:
		r := fe.newRef(fr.name(x))
		fr.vals[x] = Term{r, SInt, x.Type()}
		fr.closures[x] = x
		// A closure of /repo is verified under the assumption that what it captured by value (pointers, interfaces,
		// functions) is non-nil unless its contract says `nilable v`; that assumption is an obligation of the place that
		// creates the closure. (Variables captured by reference arrive as the address of their cell, never nil.)
		if cfn, ok := x.Fn.(*ssa.Function); ok && fe.eng.inRepo(cfn) && len(cfn.FreeVars) == len(x.Bindings) {
			cc := fe.eng.contractFor(cfn)
			for i, fv := range cfn.FreeVars {
				if cc != nil && cc.Nilable[fv.Name()] {
					continue
				}
				switch fv.Type().Underlying().(type) {
				case *types.Pointer, *types.Interface, *types.Signature:
				default:
					continue
				}
				b := fr.val(x.Bindings[i])
				if b.K != SInt || fr.nonNilByConstruction(x.Bindings[i]) {
					continue
				}
				fr.obligationOnly(st, in, "nil-capture", cfn.Name()+"("+fv.Name()+")", fmt.Sprintf("(not (= %s 0))", b.S))
			}
			// go/ssa captures by reference: the free variable is the address of the variable's cell. For a cell that is
			// written once (before any closure exists) the closure reads one constant; it is verified assuming that constant
			// non-nil, so the content of the cell at this point has to be.
			for i, fv := range cfn.FreeVars {
				if cc != nil && cc.Nilable[fv.Name()] {
					continue
				}
				pt, isPtr := fv.Type().Underlying().(*types.Pointer)
				if !isPtr || !fe.eng.freeVarIsCell(cfn, i) || !fe.eng.freeVarReadOnly(cfn, i) {
					continue
				}
				switch pt.Elem().Underlying().(type) {
				case *types.Pointer, *types.Interface, *types.Signature:
				default:
					continue
				}
				cell := fr.val(x.Bindings[i])
				cur := fe.loadRef(st, cell.S, pt.Elem())
				fr.obligationOnly(st, in, "nil-capture", cfn.Name()+"("+fv.Name()+")", fmt.Sprintf("(not (= %s 0))", cur))
			}
		}
	case *ssa.MakeSlice:
		l := fr.val(x.Len).S
		c := fr.val(x.Cap).S
		fr.safety(st, in, "makeslice", describe(x.Len, 0), fmt.Sprintf("(and (<= 0 %s) (<= %s %s))", l, l, c))
		r := fe.newRef(fr.name(x) + "_b")
		el := x.Type().Underlying().(*types.Slice).Elem()
		h, _, isB := fe.sliceHeap(el)
		if isB {
			z := fe.fresh("zs")
			fe.declConst(z, SString)
			fe.assume(fmt.Sprintf("(= (str.len %s) %s)", z, c))
			fe.hinit(st, h, r, z)
		} else {
			es := fe.sorts.SortOf(el)
			fe.hinit(st, h, r, fmt.Sprintf("((as const (Array Int %s)) %s)", es, fe.zeroOf(el)))
		}
		fr.setVal(x, fmt.Sprintf("(mk_slice %s 0 %s %s)", r, l, c))
	case *ssa.MakeMap:
		r := fe.newRef(fr.name(x))
		m := x.Type().Underlying().(*types.Map)
		d, _ := fe.mapHeaps(m)
		ks := fe.sorts.SortOf(m.Key())
		fe.hinit(st, d, r, fmt.Sprintf("((as const (Array %s Bool)) false)", ks))
		fe.hinit(st, "HMlen", r, "0")
		fr.vals[x] = Term{r, SInt, x.Type()}
	case *ssa.MakeChan:
		r := fe.newRef(fr.name(x))
		fr.vals[x] = Term{r, SInt, x.Type()}
	case *ssa.Slice:
		fr.sliceOp(x, st)
	case *ssa.Lookup:
		fr.lookup(x, st)
	case *ssa.MapUpdate:
		m := x.Map.Type().Underlying().(*types.Map)
		mv := fr.val(x.Map).S
		if !fr.nonNilByConstruction(x.Map) {
			fr.safety(st, in, "nil-map-write", describe(x.Map, 0), fmt.Sprintf("(not (= %s 0))", mv))
		}
		fr.checkFrameMap(st, in, x.Map)
		d, v := fe.mapHeaps(m)
		k := fr.val(x.Key).S
		curD := fe.hget(st, d)
		fe.hset(st, "HMlen", fmt.Sprintf("(store %s %s (+ (select %s %s) (ite (select (select %s %s) %s) 0 1)))",
			fe.hget(st, "HMlen"), mv, fe.hget(st, "HMlen"), mv, curD, mv, k))
		fe.hset(st, d, fmt.Sprintf("(store %s %s (store (select %s %s) %s true))", curD, mv, curD, mv, k))
		curV := fe.hget(st, v)
		fe.hset(st, v, fmt.Sprintf("(store %s %s (store (select %s %s) %s %s))", curV, mv, curV, mv, k, fr.val(x.Value).S))
	case *ssa.Range:
		// iterator: abstract
		fr.vals[x] = Term{fr.val(x.X).S, fe.sorts.SortOf(x.X.Type()), x.X.Type()}
	case *ssa.Next:
		fr.next(x, st)
	case *ssa.Select:
		tup := x.Type().(*types.Tuple)
		var ts []Term
		for i := 0; i < tup.Len(); i++ {
			ts = append(ts, fe.havocVal(fr.name(x)+fmt.Sprintf("_%d", i), tup.At(i).Type()))
		}
		if len(ts) > 0 {
			// index in [-1, nstates)
			lo := "0"
			if !x.Blocking {
				lo = "(- 1)"
			}
			fe.assume(fmt.Sprintf("(and (<= %s %s) (< %s %d))", lo, ts[0].S, ts[0].S, len(x.States)))
		}
		fr.tuples[x] = ts
		fe.note("select statement in %s (non-deterministic choice)", relName(fr.fn))
	case *ssa.Send:
		fe.note("channel send in %s (not modelled)", relName(fr.fn))
	case *ssa.Panic:
		fr.safety(st, in, "panic", describe(x.X, 0), "false")
	case *ssa.If:
		c := fr.val(x.Cond).S
		fr.edges[edgeKey{b, 0}] = &edgeInfo{cond: fe.define(fe.fresh(fr.prefix+fmt.Sprintf("e_b%d_0", b.Index)), SBool, sAnd(st.alive, c)), st: st.clone()}
		fr.edges[edgeKey{b, 1}] = &edgeInfo{cond: fe.define(fe.fresh(fr.prefix+fmt.Sprintf("e_b%d_1", b.Index)), SBool, sAnd(st.alive, sNot(c))), st: st.clone()}
		fr.edges[edgeKey{b, 0}].nline = len(fe.pre.body)
		fr.edges[edgeKey{b, 1}].nline = len(fe.pre.body)
		fr.pendingBack = append(fr.pendingBack, b)
	case *ssa.Jump:
		fr.edges[edgeKey{b, 0}] = &edgeInfo{cond: st.alive, st: st.clone(), nline: len(fe.pre.body)}
		fr.pendingBack = append(fr.pendingBack, b)
	case *ssa.Return:
		var rs []Term
		for _, r := range x.Results {
			rs = append(rs, fr.val(r))
		}
		return &Exit{cond: st.alive, results: rs, st: st.clone(), ret: x, nline: len(fe.pre.body)}
	case *ssa.SliceToArrayPointer, *ssa.MultiConvert:
		fe.note("unsupported instruction %T in %s", in, relName(fr.fn))
		if v, ok := in.(ssa.Value); ok {
			fr.setHavoc(v)
		}
	default:
		fe.note("unsupported instruction %T in %s", in, relName(fr.fn))
		if v, ok := in.(ssa.Value); ok {
			fr.setHavoc(v)
		}
	}
	return nil
}

// backEdges: emit inv-keep obligations for back edges leaving b.
func (fr *Frame) backEdges(b *ssa.BasicBlock, st *State) {
	fe := fr.fe
	if fr.depth != 0 {
		return
	}
	for si, s := range b.Succs {
		if !isBackEdge(b, s) {
			continue
		}
		li := fr.loopCtx[s]
		if li == nil {
			continue
		}
		e := fr.edges[edgeKey{b, si}]
		ord := fr.loopOrdinal(s)
		// which pred index of s is this edge?
		predIdx := -1
		cnt := 0
		for _, s2 := range b.Succs[:si] {
			if s2 == s {
				cnt++
			}
		}
		for i, p := range s.Preds {
			if p == b {
				if cnt == 0 {
					predIdx = i
					break
				}
				cnt--
			}
		}
		// ghost accumulators step on the back edge: loop variables at their loop-head values, heap as of now
		stepped := map[string]Term{}
		for _, g := range fr.loopGhosts(ord) {
			senv := fr.envAt(e.st)
			senv.loopHdr = s
			senv.scopeAt = b
			for n, t := range li.ghosts {
				senv.vars[n] = t
			}
			if t, err := senv.evalTop(g.Step); err == nil {
				nm := fe.define(fe.fresh(fr.prefix+"ghost_"+g.Name+"_next"), t.K, t.S)
				stepped[g.Name] = Term{nm, t.K, t.T}
			} else {
				fe.addOblig(&Oblig{Kind: "inv-keep", Props: fe.fc.Props, Label: fmt.Sprintf("loop%d:ghost:%s", ord, g.Name), Reach: e.cond, Formula: "false", Src: g.Src}, err)
			}
		}
		for _, inv := range fr.loopInvariants(ord) {
			env := fr.envAt(e.st)
			env.phiEdge = &phiSel{block: s, predIdx: predIdx}
			env.scopeAt = b
			for n, t := range stepped {
				env.vars[n] = t
			}
			f, err := env.evalBool(inv.Expr)
			fe.addOblig(&Oblig{Kind: "inv-keep", Props: inv.Props, Label: fmt.Sprintf("loop%d:%s", ord, inv.Label),
				Reach: e.cond, Formula: f, Src: inv.Src, Pos: fr.pos(s.Instrs[0].Pos()), nline: e.nline}, err)
		}
	}
}

func (fe *FuncEnc) newRef(base string) string {
	n := fe.fresh(base + "_r")
	fe.declConst(n, SInt)
	fe.assume(fmt.Sprintf("(> %s 0)", n))
	for _, o := range fe.allocs {
		fe.assume(fmt.Sprintf("(not (= %s %s))", n, o))
	}
	for _, p := range fe.inputRefs() {
		fe.assume(fmt.Sprintf("(not (= %s %s))", n, p))
	}
	for _, p := range fe.seenRefs {
		fe.assume(fmt.Sprintf("(not (= %s %s))", n, p))
	}
	// a new object is not an element of any slice of references that exists at this moment. "Exists" is made explicit by a
	// birth stamp: born(r) is the ordinal of the allocation in encoding (= execution) order, the backing arrays of slice
	// parameters are born before the function starts, and the fact speaks only about slices whose backing array is older than
	// the new object. (Without the stamp the fact also covered arrays allocated later, whose initial contents are asserted in
	// the same heap version: storing the new object into a later literal or append result contradicted it.)
	fe.allocSeq++
	if fe.allocSeq == 1 && fe.top != nil {
		for _, p := range append(append([]Term{}, fe.top.params...), fe.top.free...) {
			if p.K == SSlice {
				fe.assumeGlobal(fmt.Sprintf("(<= (born (s_base %s)) 0)", p.S))
			}
		}
	}
	fe.assume(fmt.Sprintf("(= (born %s) %d)", n, fe.allocSeq))
	if _, ok := fe.heapSorts["HS_Int"]; ok && fe.curState != nil {
		hv := fe.hget(fe.curState, "HS_Int")
		fe.pre.decl(fmt.Sprintf("(declare-fun at_Int (%s Slice Int) Int)", fe.heapSorts["HS_Int"]))
		g := fe.curGuard
		if g == "" {
			g = "true"
		}
		// the heap version may be a defined merge (an ite over path conditions), which z3 refuses inside a pattern:
		// name it by a constant
		hc := fe.fresh("HS_Int_at")
		fe.declConst(hc, fe.heapSorts["HS_Int"])
		fe.assumeGlobal(fmt.Sprintf("(= %s %s)", hc, hv))
		fe.assume(fmt.Sprintf("(forall ((qs Slice) (qi Int)) (! (=> (and %s (< (born (s_base qs)) %d)) (not (= (at_Int %s qs qi) %s))) :pattern ((at_Int %s qs qi))))", g, fe.allocSeq, hc, n, hc))
	}
	fe.allocs = append(fe.allocs, n)
	return n
}

func (fe *FuncEnc) inputRefs() []string {
	var out []string
	if fe.top == nil {
		return nil
	}
	for _, p := range append(append([]Term{}, fe.top.params...), fe.top.free...) {
		if p.K == SInt && p.T != nil {
			switch p.T.Underlying().(type) {
			case *types.Pointer, *types.Map, *types.Chan:
				out = append(out, p.S)
			}
		}
		if p.K == SSlice {
			out = append(out, "(s_base "+p.S+")")
		}
	}
	return out
}

// escapes: conservative syntactic escape check for an allocation.
func (fe *FuncEnc) escapes(a ssa.Value) bool {
	refs := a.Referrers()
	if refs == nil {
		return true
	}
	for _, r := range *refs {
		switch x := r.(type) {
		case *ssa.FieldAddr:
			if x.X == a && fe.interiorEscapes(x) {
				return true
			}
		case *ssa.IndexAddr:
			if x.X == a && fe.interiorEscapes(x) {
				return true
			}
		case *ssa.UnOp:
			// load
		case *ssa.Store:
			if x.Val == a {
				return true
			}
		case *ssa.DebugRef:
		case *ssa.Slice:
			// a slice of the array that is only indexed, measured and ranged over here (the table of a
			// "for _, c := range []T{…}" loop) leaves the array private
			if x.X != a || fe.sliceValueEscapes(x) {
				return true
			}
		case *ssa.MakeClosure:
			// captured by a closure: the cell stays private if no capturing closure writes it or leaks its address
			for i, b := range x.Bindings {
				if b == a {
					if fn, ok := x.Fn.(*ssa.Function); !ok || i >= len(fn.FreeVars) || freeVarWrittenOrLeaked(fn.FreeVars[i], 0) {
						return true
					}
				}
			}
		default:
			return true
		}
	}
	return false
}

// sliceValueEscapes: is the slice value used for anything but reading its elements and its length?
func (fe *FuncEnc) sliceValueEscapes(sv ssa.Value) bool {
	refs := sv.Referrers()
	if refs == nil {
		return true
	}
	for _, r := range *refs {
		switch x := r.(type) {
		case *ssa.DebugRef:
		case *ssa.IndexAddr:
			if x.X != sv || fe.interiorEscapes(x) {
				return true
			}
		case *ssa.Call:
			b, ok := x.Call.Value.(*ssa.Builtin)
			if !ok || (b.Name() != "len" && b.Name() != "cap") {
				return true
			}
		default:
			return true
		}
	}
	return false
}

func freeVarWrittenOrLeaked(fv *ssa.FreeVar, depth int) bool {
	if depth > 3 {
		return true
	}
	refs := fv.Referrers()
	if refs == nil {
		return false
	}
	for _, r := range *refs {
		switch x := r.(type) {
		case *ssa.UnOp, *ssa.DebugRef:
		case *ssa.MakeClosure:
			for i, b := range x.Bindings {
				if b == ssa.Value(fv) {
					fn, ok := x.Fn.(*ssa.Function)
					if !ok || i >= len(fn.FreeVars) || freeVarWrittenOrLeaked(fn.FreeVars[i], depth+1) {
						return true
					}
				}
			}
		default:
			return true
		}
	}
	return false
}

func (fe *FuncEnc) interiorEscapes(v ssa.Value) bool {
	refs := v.Referrers()
	if refs == nil {
		return true
	}
	for _, r := range *refs {
		switch x := r.(type) {
		case *ssa.UnOp, *ssa.DebugRef:
		case *ssa.Store:
			if x.Val == v {
				return true
			}
		case *ssa.FieldAddr:
			if fe.interiorEscapes(x) {
				return true
			}
		case *ssa.IndexAddr:
			if fe.interiorEscapes(x) {
				return true
			}
		default:
			return true
		}
	}
	return false
}

func (fr *Frame) unop(b *ssa.BasicBlock, x *ssa.UnOp, st *State) {
	fe := fr.fe
	switch x.Op {
	case token.MUL:
		a := fr.addrOf(x.X)
		if a.kind == aRef {
			fr.nilCheck(st, x, x.X)
			if g, ok := x.X.(*ssa.Global); ok && fe.eng.immutableGlobal(g) {
				// immutable package-level variable: its value is a constant of the program
				n := "gv_" + mangle(shortPkg(g.Pkg.Pkg.Path())+"."+g.Name())
				k := fe.sorts.SortOf(x.Type())
				fe.declConst(n, k)
				if k == SInt {
					switch x.Type().Underlying().(type) {
					case *types.Interface, *types.Pointer, *types.Map:
						if fe.eng.nonNilGlobal(g) {
							fe.pre.decl(fmt.Sprintf("(assert (not (= %s 0)))", n))
						}
					}
				}
				fe.eng.globalVals[n] = g
				fe.sentinelSeen(n, g)
				fr.vals[x] = Term{n, k, x.Type()}
				return
			}
		}
		if fv, ok := x.X.(*ssa.FreeVar); ok {
			for i, f := range fr.fn.FreeVars {
				if f == fv && fe.eng.freeVarReadOnly(fr.fn, i) {
					// read-only captured variable: one constant per activation
					n := fr.prefix + "cv_" + mangle(fv.Name())
					k := fe.sorts.SortOf(x.Type())
					fe.declConst(n, k)
					if !fe.cvSeen[n] {
						fe.cvSeen[n] = true
						g := fe.curGuard
						fe.curGuard = "" // a constant of the activation: its type invariant holds on every path
						fe.assumeTypeInv(n, x.Type())
						if fr.depth == 0 && k == SInt && !fe.nilableParam(fv.Name()) {
							// non-nil like a parameter: the obligation is at the place that creates the closure (nil-capture)
							switch x.Type().Underlying().(type) {
							case *types.Pointer, *types.Interface, *types.Signature:
								fe.assume(fmt.Sprintf("(not (= %s 0))", n))
							}
						}
						fe.curGuard = g
					}
					fr.vals[x] = Term{n, k, x.Type()}
					return
				}
			}
		}
		t := fr.setVal(x, fe.loadAddr(st, a))
		fe.assumeLoadedInv(t, x)
	case token.NOT:
		fr.setVal(x, sNot(fr.val(x.X).S))
	case token.SUB:
		fr.setVal(x, fmt.Sprintf("(- %s)", fr.val(x.X).S))
	case token.ARROW:
		if x.CommaOk {
			tup := x.Type().(*types.Tuple)
			fr.tuples[x] = []Term{fe.havocVal(fr.name(x)+"_v", tup.At(0).Type()), fe.havocVal(fr.name(x)+"_ok", tup.At(1).Type())}
		} else {
			fr.setHavoc(x)
		}
	default:
		fr.setHavoc(x)
	}
}

// assumeLoadedInv: type invariants of values read from the heap (ranges, slice well-formedness, nonnil fields).
func (fe *FuncEnc) assumeLoadedInv(t Term, x *ssa.UnOp) {
	fe.assumeTypeInv(t.S, t.T)
	if fa, ok := x.X.(*ssa.FieldAddr); ok {
		stT := fa.X.Type().Underlying().(*types.Pointer).Elem()
		f := stT.Underlying().(*types.Struct).Field(fa.Field)
		if fe.eng.specs.isNonNil(stT, f.Name()) {
			fe.assumeNonNilValue(fe.curState, t)
		}
	}
}

// assumeNonNilValue: what `nonnil T.f` says about a value of field f: a reference is not nil; a slice of references has no
// nil element (in the heap as it is now — the invariant is re-assumed whenever the field is read again).
func (fe *FuncEnc) assumeNonNilValue(st *State, t Term) {
	switch t.K {
	case SInt:
		fe.assume(fmt.Sprintf("(not (= %s 0))", t.S))
	case SSlice:
		sl, ok := t.T.Underlying().(*types.Slice)
		if !ok || st == nil || fe.sorts.SortOf(sl.Elem()) != SInt {
			return
		}
		if _, isIface := sl.Elem().Underlying().(*types.Interface); !isIface && !isRefLike(sl.Elem()) {
			return
		}
		h, _, isB := fe.sliceHeap(sl.Elem())
		if isB {
			return
		}
		fe.pre.decl(fmt.Sprintf("(declare-fun at_Int (%s Slice Int) Int)", fe.heapSorts[h]))
		hc := fe.fresh(h + "_at")
		fe.declConst(hc, fe.heapSorts[h])
		fe.assumeGlobal(fmt.Sprintf("(= %s %s)", hc, fe.hget(st, h)))
		g := fe.curGuard
		if g == "" {
			g = "true"
		}
		fe.assume(fmt.Sprintf("(forall ((qi Int)) (! (=> (and %s (<= 0 qi) (< qi (s_len %s))) (not (= (at_Int %s %s qi) 0))) :pattern ((at_Int %s %s qi))))", g, t.S, hc, t.S, hc, t.S))
	}
}

func (fr *Frame) binop(x *ssa.BinOp, st *State) {
	fe := fr.fe
	a, b := fr.val(x.X), fr.val(x.Y)
	k := a.K
	switch x.Op {
	case token.ADD:
		if k == SString {
			fr.setVal(x, fmt.Sprintf("(str.++ %s %s)", a.S, b.S))
		} else {
			fr.setVal(x, fmt.Sprintf("(+ %s %s)", a.S, b.S))
		}
	case token.SUB:
		fr.setVal(x, fmt.Sprintf("(- %s %s)", a.S, b.S))
	case token.MUL:
		fr.setVal(x, fmt.Sprintf("(* %s %s)", a.S, b.S))
	case token.QUO:
		if k == SReal {
			fr.setVal(x, fmt.Sprintf("(/ %s %s)", a.S, b.S))
		} else {
			fr.safety(st, x, "div-zero", describe(x.Y, 0), fmt.Sprintf("(not (= %s 0))", b.S))
			fr.setVal(x, fmt.Sprintf("(godiv %s %s)", a.S, b.S))
		}
	case token.REM:
		fr.safety(st, x, "div-zero", describe(x.Y, 0), fmt.Sprintf("(not (= %s 0))", b.S))
		fr.setVal(x, fmt.Sprintf("(gomod %s %s)", a.S, b.S))
	case token.EQL, token.NEQ:
		var e string
		if k == SSlice {
			// only comparison with nil is legal
			other := a
			if c, ok := x.X.(*ssa.Const); ok && c.Value == nil {
				other = b
			}
			e = fmt.Sprintf("(= (s_base %s) 0)", other.S)
		} else {
			e = fmt.Sprintf("(= %s %s)", a.S, b.S)
		}
		if x.Op == token.NEQ {
			e = sNot(e)
		}
		fr.setVal(x, e)
	case token.LSS, token.LEQ, token.GTR, token.GEQ:
		op := map[token.Token]string{token.LSS: "<", token.LEQ: "<=", token.GTR: ">", token.GEQ: ">="}[x.Op]
		if k == SString {
			sop := map[token.Token]string{token.LSS: "str.<", token.LEQ: "str.<="}[x.Op]
			switch x.Op {
			case token.LSS, token.LEQ:
				fr.setVal(x, fmt.Sprintf("(%s %s %s)", sop, a.S, b.S))
			case token.GTR:
				fr.setVal(x, fmt.Sprintf("(str.< %s %s)", b.S, a.S))
			case token.GEQ:
				fr.setVal(x, fmt.Sprintf("(str.<= %s %s)", b.S, a.S))
			}
		} else {
			fr.setVal(x, fmt.Sprintf("(%s %s %s)", op, a.S, b.S))
		}
	case token.AND, token.OR, token.XOR, token.SHL, token.SHR, token.AND_NOT:
		if k == SBool {
			switch x.Op {
			case token.AND:
				fr.setVal(x, sAnd(a.S, b.S))
			case token.OR:
				fr.setVal(x, sOr(a.S, b.S))
			default:
				fr.setHavoc(x)
			}
			return
		}
		// bit operations: uninterpreted (deterministic)
		fn := "bitop_" + map[token.Token]string{token.AND: "and", token.OR: "or", token.XOR: "xor", token.SHL: "shl", token.SHR: "shr", token.AND_NOT: "andnot"}[x.Op]
		fe.pre.decl(fmt.Sprintf("(declare-fun %s (Int Int) Int)", fn))
		t := fr.setVal(x, fmt.Sprintf("(%s %s %s)", fn, a.S, b.S))
		fe.assumeTypeInv(t.S, x.Type())
	default:
		fr.setHavoc(x)
	}
}

func (fr *Frame) convert(x *ssa.Convert, st *State) {
	fe := fr.fe
	src := fr.val(x.X)
	from, to := x.X.Type(), x.Type()
	fk, tk := fe.sorts.SortOf(from), fe.sorts.SortOf(to)
	switch {
	case fk == SInt && tk == SInt:
		// integer conversion: identity when the target range holds, otherwise an unknown value in range
		r := intRange(to, src.S)
		if r == "" || fe.rangeIncluded(from, to) {
			fr.vals[x] = Term{src.S, tk, to}
		} else {
			w := fe.havocVal(fr.name(x)+"_wrap", to)
			fr.setVal(x, sIte(r, src.S, w.S))
		}
	case fk == SString && tk == SSlice && isByteSlice(to):
		r := fe.newRef(fr.name(x) + "_b")
		fe.heapDecl("HB", "(Array Int String)")
		fe.hinit(st, "HB", r, src.S)
		fr.setVal(x, fmt.Sprintf("(mk_slice %s 0 (str.len %s) (str.len %s))", r, src.S, src.S))
	case fk == SSlice && tk == SString && isByteSlice(from):
		fe.heapDecl("HB", "(Array Int String)")
		fr.setVal(x, fe.bytesContent(st, src.S))
	case fk == SInt && tk == SString:
		// string(rune)
		fr.setVal(x, fmt.Sprintf("(str.from_code %s)", src.S))
	case fk == SInt && tk == SReal:
		fr.setVal(x, fmt.Sprintf("(to_real %s)", src.S))
	case fk == SReal && tk == SInt:
		// truncation toward zero
		fr.setVal(x, fmt.Sprintf("(ite (>= %s 0.0) (to_int %s) (- (to_int (- %s))))", src.S, src.S, src.S))
	case fk == tk:
		fr.vals[x] = Term{src.S, tk, to}
	default:
		fr.setHavoc(x)
	}
}

func (fe *FuncEnc) rangeIncluded(from, to types.Type) bool {
	fb, ok1 := from.Underlying().(*types.Basic)
	tb, ok2 := to.Underlying().(*types.Basic)
	if !ok1 || !ok2 {
		return false
	}
	rank := func(k types.BasicKind) (signed bool, bits int) {
		switch k {
		case types.Int8:
			return true, 8
		case types.Int16:
			return true, 16
		case types.Int32:
			return true, 32
		case types.Int, types.Int64:
			return true, 64
		case types.Uint8:
			return false, 8
		case types.Uint16:
			return false, 16
		case types.Uint32:
			return false, 32
		case types.Uint, types.Uint64, types.Uintptr:
			return false, 64
		}
		return true, 64
	}
	fs, fbits := rank(fb.Kind())
	ts, tbits := rank(tb.Kind())
	if fs == ts {
		return fbits <= tbits
	}
	if !fs && ts {
		return fbits < tbits
	}
	return false
}

// bytesContent: the string content of a []byte slice value in state st.
func (fe *FuncEnc) bytesContent(st *State, s string) string {
	fe.heapDecl("HB", "(Array Int String)")
	return fmt.Sprintf("(str.substr (select %s (s_base %s)) (s_off %s) (s_len %s))", fe.hget(st, "HB"), s, s, s)
}

func (fr *Frame) makeInterface(x *ssa.MakeInterface) {
	fe := fr.fe
	src := fr.val(x.X)
	T := x.X.Type()
	tag := fe.sorts.Tag(T)
	fe.pre.decl("(declare-fun typetag (Int) Int)")
	if _, isPtr := T.Underlying().(*types.Pointer); isPtr || isRefLike(T) {
		// pointer-shaped dynamic values: the interface value is the pointer itself when non-nil;
		// a nil pointer in an interface is still a non-nil interface: box it
		bf := "boxnil_" + fmt.Sprint(tag)
		fe.pre.decl(fmt.Sprintf("(declare-const %s Int)", bf))
		fe.pre.decl(fmt.Sprintf("(assert (< %s 0))", bf))
		fe.pre.decl(fmt.Sprintf("(assert (= (typetag %s) %d))", bf, tag))
		t := fr.setVal(x, sIte(fmt.Sprintf("(= %s 0)", src.S), bf, src.S))
		fe.assume(fmt.Sprintf("(=> (not (= %s 0)) (= (typetag %s) %d))", src.S, t.S, tag))
		return
	}
	bf := fmt.Sprintf("box_%d", tag)
	ub := fmt.Sprintf("unbox_%d", tag)
	fe.pre.decl(fmt.Sprintf("(declare-fun %s (%s) Int)", bf, src.K))
	fe.pre.decl(fmt.Sprintf("(declare-fun %s (Int) %s)", ub, src.K))
	t := fr.setVal(x, fmt.Sprintf("(%s %s)", bf, src.S))
	fe.assume(fmt.Sprintf("(and (not (= %s 0)) (= (typetag %s) %d) (= (%s %s) %s))", t.S, t.S, tag, ub, t.S, src.S))
}

func isRefLike(T types.Type) bool {
	switch T.Underlying().(type) {
	case *types.Pointer, *types.Map, *types.Chan, *types.Signature:
		return true
	}
	return false
}

func (fr *Frame) typeAssert(x *ssa.TypeAssert, st *State) {
	fe := fr.fe
	src := fr.val(x.X)
	fe.pre.decl("(declare-fun typetag (Int) Int)")
	T := x.AssertedType
	var okc, val string
	if _, isIface := T.Underlying().(*types.Interface); isIface {
		// interface-to-interface assertion: abstract predicate on the dynamic type
		pn := "implements_" + mangle(typeKey(T))
		if len(pn) > 80 {
			pn = pn[:80]
		}
		fe.pre.decl(fmt.Sprintf("(declare-fun %s (Int) Bool)", pn))
		okc = fmt.Sprintf("(and (not (= %s 0)) (%s (typetag %s)))", src.S, pn, src.S)
		val = src.S
	} else {
		tag := fe.sorts.Tag(T)
		okc = fmt.Sprintf("(and (not (= %s 0)) (= (typetag %s) %d))", src.S, src.S, tag)
		if isRefLike(T) {
			bf := "boxnil_" + fmt.Sprint(tag)
			fe.pre.decl(fmt.Sprintf("(declare-const %s Int)", bf))
			fe.pre.decl(fmt.Sprintf("(assert (< %s 0))", bf))
			fe.pre.decl(fmt.Sprintf("(assert (= (typetag %s) %d))", bf, tag))
			val = sIte(fmt.Sprintf("(= %s %s)", src.S, bf), "0", src.S)
		} else {
			k := fe.sorts.SortOf(T)
			ub := fmt.Sprintf("unbox_%d", tag)
			fe.pre.decl(fmt.Sprintf("(declare-fun %s (Int) %s)", ub, k))
			val = fmt.Sprintf("(%s %s)", ub, src.S)
		}
	}
	if x.CommaOk {
		okn := fe.define(fe.fresh(fr.name(x)+"_ok"), SBool, okc)
		k := fe.sorts.SortOf(T)
		vn := fe.define(fe.fresh(fr.name(x)+"_v"), k, sIte(okn, val, fe.zeroOf(T)))
		fe.assumeTypeInv(vn, T)
		fr.tuples[x] = []Term{{vn, k, T}, {okn, SBool, types.Typ[types.Bool]}}
		return
	}
	fr.safety(st, x, "type-assert", describe(x, 0), okc)
	t := fr.setVal(x, val)
	fe.assumeTypeInv(t.S, T)
}

func (fr *Frame) sliceOp(x *ssa.Slice, st *State) {
	src := fr.val(x.X)
	lo := "0"
	if x.Low != nil {
		lo = fr.val(x.Low).S
	}
	switch t := x.X.Type().Underlying().(type) {
	case *types.Basic: // string
		hi := fmt.Sprintf("(str.len %s)", src.S)
		if x.High != nil {
			hi = fr.val(x.High).S
		}
		fr.safety(st, x, "slice", describe(x, 0), fmt.Sprintf("(and (<= 0 %s) (<= %s %s) (<= %s (str.len %s)))", lo, lo, hi, hi, src.S))
		fr.setVal(x, fmt.Sprintf("(str.substr %s %s (- %s %s))", src.S, lo, hi, lo))
	case *types.Slice:
		hi := fmt.Sprintf("(s_len %s)", src.S)
		if x.High != nil {
			hi = fr.val(x.High).S
		}
		mx := fmt.Sprintf("(s_cap %s)", src.S)
		if x.Max != nil {
			mx = fr.val(x.Max).S
		}
		fr.safety(st, x, "slice", describe(x, 0), fmt.Sprintf("(and (<= 0 %s) (<= %s %s) (<= %s %s) (<= %s (s_cap %s)))", lo, lo, hi, hi, mx, mx, src.S))
		fr.setVal(x, fmt.Sprintf("(mk_slice (s_base %s) (+ (s_off %s) %s) (- %s %s) (- %s %s))", src.S, src.S, lo, hi, lo, mx, lo))
	case *types.Pointer: // *array
		fr.nilCheck(st, x, x.X)
		n := t.Elem().Underlying().(*types.Array).Len()
		hi := fmt.Sprint(n)
		if x.High != nil {
			hi = fr.val(x.High).S
		}
		fr.safety(st, x, "slice", describe(x, 0), fmt.Sprintf("(and (<= 0 %s) (<= %s %s) (<= %s %d))", lo, lo, hi, hi, n))
		fr.setVal(x, fmt.Sprintf("(mk_slice %s %s (- %s %s) (- %d %s))", src.S, lo, hi, lo, n, lo))
	default:
		fr.setHavoc(x)
	}
}

func (fr *Frame) lookup(x *ssa.Lookup, st *State) {
	fe := fr.fe
	switch t := x.X.Type().Underlying().(type) {
	case *types.Map:
		d, v := fe.mapHeaps(t)
		m := fr.val(x.X).S
		k := fr.val(x.Index).S
		in := fmt.Sprintf("(and (not (= %s 0)) (select (select %s %s) %s))", m, fe.hget(st, d), m, k)
		val := sIte(in, fmt.Sprintf("(select (select %s %s) %s)", fe.hget(st, v), m, k), fe.zeroOf(t.Elem()))
		if x.CommaOk {
			okn := fe.define(fe.fresh(fr.name(x)+"_ok"), SBool, in)
			ks := fe.sorts.SortOf(t.Elem())
			vn := fe.define(fe.fresh(fr.name(x)+"_v"), ks, val)
			fe.assumeTypeInv(vn, t.Elem())
			fr.tuples[x] = []Term{{vn, ks, t.Elem()}, {okn, SBool, types.Typ[types.Bool]}}
		} else {
			tv := fr.setVal(x, val)
			fe.assumeTypeInv(tv.S, t.Elem())
		}
	case *types.Basic:
		s := fr.val(x.X).S
		idx := fr.val(x.Index).S
		fr.safety(st, x, "index", describe(x, 0), fmt.Sprintf("(and (<= 0 %s) (< %s (str.len %s)))", idx, idx, s))
		fr.setVal(x, fmt.Sprintf("(str.to_code (str.at %s %s))", s, idx))
	default:
		fr.setHavoc(x)
	}
}

func (fr *Frame) next(x *ssa.Next, st *State) {
	fe := fr.fe
	tup := x.Type().(*types.Tuple)
	ok := fe.havocVal(fr.name(x)+"_ok", tup.At(0).Type())
	var k, v Term
	rng := x.Iter.(*ssa.Range)
	if x.IsString {
		k = fe.havocVal(fr.name(x)+"_k", tup.At(1).Type())
		v = fe.havocVal(fr.name(x)+"_v", tup.At(2).Type())
		s := fr.val(rng.X).S
		fe.assume(fmt.Sprintf("(=> %s (and (<= 0 %s) (< %s (str.len %s)) (<= 0 %s) (=> (< (str.to_code (str.at %s %s)) 128) (= %s (str.to_code (str.at %s %s))))))", ok.S, k.S, k.S, s, v.S, s, k.S, v.S, s, k.S))
	} else {
		m := rng.X.Type().Underlying().(*types.Map)
		d, vh := fe.mapHeaps(m)
		mv := fr.val(rng.X).S
		kt, vt := m.Key(), m.Elem()
		k = fe.havocVal(fr.name(x)+"_k", kt)
		v = fe.havocVal(fr.name(x)+"_v", vt)
		fe.assume(fmt.Sprintf("(=> %s (and (not (= %s 0)) (select (select %s %s) %s) (= %s (select (select %s %s) %s))))",
			ok.S, mv, fe.hget(st, d), mv, k.S, v.S, fe.hget(st, vh), mv, k.S))
		// an empty map yields no iteration
		fe.assume(fmt.Sprintf("(=> %s (> (select %s %s) 0))", ok.S, fe.hget(st, "HMlen"), mv))
	}
	fr.tuples[x] = []Term{ok, k, v}
}

func (fe *FuncEnc) frameRestricted() bool {
	return fe.fc != nil && (fe.fc.NoMod || fe.fc.Pure || fe.fc.Modifies != nil)
}

func (fe *FuncEnc) freshCond(obj string) string {
	var fresh []string
	for _, a := range fe.allocs {
		fresh = append(fresh, fmt.Sprintf("(= %s %s)", obj, a))
	}
	return sOr(fresh...)
}

// checkFrame: in a function whose contract restricts its frame (nomod / modifies), every store must hit
// the declared frame or an object allocated by this activation.
func (fr *Frame) checkFrame(st *State, in ssa.Instruction, addr ssa.Value) {
	fe := fr.fe
	if fr.depth != 0 || !fe.frameRestricted() {
		return
	}
	var base, what string
	switch a := addr.(type) {
	case *ssa.FieldAddr:
		root := ssa.Value(a)
		for {
			if f, ok := root.(*ssa.FieldAddr); ok {
				root = f.X
				continue
			}
			if ia, ok := root.(*ssa.IndexAddr); ok {
				root = ia.X
				continue
			}
			break
		}
		stT := a.X.Type().Underlying().(*types.Pointer).Elem()
		fname := stT.Underlying().(*types.Struct).Field(a.Field).Name()
		tn := typeKey(stT)
		if i := strings.LastIndex(tn, "."); i >= 0 {
			tn = tn[i+1:]
		}
		for _, m := range fe.fc.Modifies {
			if m == tn+"."+fname || m == tn+".*" || m == "*" {
				return
			}
		}
		what = tn + "." + fname
		rv := fr.val(root)
		if rv.K == SSlice {
			base = "(s_base " + rv.S + ")"
		} else {
			base = rv.S
		}
	case *ssa.IndexAddr:
		rv := fr.val(a.X)
		what = "elem:" + describe(a.X, 0)
		if rv.K == SSlice {
			base = "(s_base " + rv.S + ")"
		} else {
			base = rv.S
		}
		for _, m := range fe.fc.Modifies {
			if m == "*" || m == "elems" {
				return
			}
		}
	default:
		if _, isAlloc := addr.(*ssa.Alloc); isAlloc {
			return
		}
		what = "deref:" + describe(addr, 0)
		base = fr.val(addr).S
		for _, m := range fe.fc.Modifies {
			if m == "*" || m == "cells" {
				return
			}
		}
	}
	fe.opCount["frame:"+what]++
	label := "store:" + what
	if n := fe.opCount["frame:"+what]; n > 1 {
		label = fmt.Sprintf("%s#%d", label, n-1)
	}
	fe.addOblig(&Oblig{Kind: "frame", Props: fe.fc.Props, Label: label, Reach: st.alive,
		Formula: fe.freshCond(base), Src: "store to " + what + " stays inside the frame", Pos: fr.pos(in.Pos())}, nil)
}

// checkFrameMap: a map update inside a frame-restricted function must hit a map made by this activation
// (or the frame must name "maps").
func (fr *Frame) checkFrameMap(st *State, in ssa.Instruction, mp ssa.Value) {
	fe := fr.fe
	if fr.depth != 0 || !fe.frameRestricted() {
		return
	}
	for _, m := range fe.fc.Modifies {
		if m == "*" || m == "maps" {
			return
		}
	}
	if _, isMake := mp.(*ssa.MakeMap); isMake {
		return
	}
	what := "map:" + describe(mp, 0)
	fe.opCount["frame:"+what]++
	label := "store:" + what
	if n := fe.opCount["frame:"+what]; n > 1 {
		label = fmt.Sprintf("%s#%d", label, n-1)
	}
	fe.addOblig(&Oblig{Kind: "frame", Props: fe.fc.Props, Label: label, Reach: st.alive,
		Formula: fe.freshCond(fr.val(mp).S), Src: "update of " + what + " stays inside the frame", Pos: fr.pos(in.Pos())}, nil)
}

// frameCall: a call that may modify the heap inside a frame-restricted function.
func (fr *Frame) frameCall(st *State, c ssa.CallInstruction, name string, objs []string) {
	fr.frameCallMods(st, c, name, objs, nil)
}

// frameCallMods: calleeMods (when known) are the callee's general frame patterns; a callee whose frame is contained in
// the caller's frame needs no obligation.
func (fr *Frame) frameCallMods(st *State, c ssa.CallInstruction, name string, objs []string, calleeMods []string) {
	fe := fr.fe
	if fr.depth != 0 || !fe.frameRestricted() {
		return
	}
	for _, m := range fe.fc.Modifies {
		if m == "*" {
			return
		}
	}
	if len(calleeMods) > 0 {
		sub := true
		for _, cm := range calleeMods {
			if !contains(fe.fc.Modifies, cm) {
				sub = false
			}
		}
		if sub {
			return
		}
	}
	f := "false"
	if objs != nil {
		var cs []string
		for _, o := range objs {
			alts := []string{fe.freshCond(o)}
			// the function's own frame may name parameters: "modifies header.hdr"
			for _, m := range fe.fc.Modifies {
				if i := strings.Index(m, "."); i > 0 {
					for pi, p := range fe.fn.Params {
						if p.Name() == m[:i] && pi < len(fr.params) {
							alts = append(alts, fmt.Sprintf("(= %s %s)", o, fr.params[pi].S))
						}
					}
				}
			}
			cs = append(cs, sOr(alts...))
		}
		f = sAnd(cs...)
	}
	label := "call:" + callShort(c)
	fe.opCount["frame:"+label]++
	if n := fe.opCount["frame:"+label]; n > 1 {
		label = fmt.Sprintf("%s#%d", label, n-1)
	}
	fe.addOblig(&Oblig{Kind: "frame", Props: fe.fc.Props, Label: label, Reach: st.alive, Formula: f,
		Src: "call of " + name + " stays inside the frame", Pos: fr.pos(c.Pos())}, nil)
}
