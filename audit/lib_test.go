package gcvaudit

// Assumption audit, third-party libraries: the lz4 round-trip axiom with the writer options oauth2-proxy uses, and the
// go-simplejson facts assumed in contracts/stdlib.spec. Bounded differential testing of the trusted base, never proof.

import (
	"bytes"
	"io"
	"testing"

	simplejson "github.com/bitly/go-simplejson"
	"github.com/pierrec/lz4/v4"
)

func lz4enc(t *testing.T, payload []byte) []byte {
	buf := new(bytes.Buffer)
	zw := lz4.NewWriter(nil)
	if err := zw.Apply(lz4.BlockSizeOption(lz4.BlockSize(65536)), lz4.CompressionLevelOption(lz4.Fast)); err != nil {
		t.Fatal(err)
	}
	zw.Reset(buf)
	if _, err := io.Copy(zw, bytes.NewReader(payload)); err != nil {
		t.Fatal(err)
	}
	if err := zw.Close(); err != nil {
		t.Fatal(err)
	}
	return buf.Bytes()
}

func lz4dec(t *testing.T, compressed []byte) []byte {
	zr := lz4.NewReader(nil)
	zr.Reset(bytes.NewReader(compressed))
	out := new(bytes.Buffer)
	if _, err := io.Copy(out, zr); err != nil {
		t.Fatal(err)
	}
	return out.Bytes()
}

// axiom lz4-roundtrip: lz4dec(lz4enc(x)) == x, for random, empty, highly repetitive and larger-than-a-block payloads
func TestLZ4RoundTripModel(t *testing.T) {
	r := rng()
	var cases [][]byte
	cases = append(cases, nil, []byte{}, []byte("a"))
	for i := 0; i < 200; i++ {
		b := make([]byte, r.Intn(5000))
		r.Read(b)
		cases = append(cases, b)
	}
	for i := 0; i < 100; i++ {
		unit := []byte(randStr(r, "abcdefgh-_/:", 40) + ",")
		cases = append(cases, bytes.Repeat(unit, 1+r.Intn(4000))) // compresses far better than 8:1
	}
	big := make([]byte, 200000)
	r.Read(big)
	cases = append(cases, big, bytes.Repeat([]byte{0}, 300000))
	for _, c := range cases {
		if got := lz4dec(t, lz4enc(t, c)); !bytes.Equal(got, c) {
			t.Fatalf("round trip of a %d-byte payload gave %d bytes", len(c), len(got))
		}
	}
}

// go-simplejson: NewJson gives an object or an error; New gives an object; GetPath/Get never give nil; CheckGet gives an
// object exactly when it reports the key; lookups do not change the document
func TestSimpleJSONModel(t *testing.T) {
	for _, src := range []string{`{}`, `{"a":1}`, `{"a":{"b":[1,2]},"c":null}`, `[1,2]`, `"s"`, `1`, `null`, ``, `{`, `{"a":`, `nope`} {
		j, err := simplejson.NewJson([]byte(src))
		if (j == nil) == (err == nil) {
			t.Fatalf("NewJson(%q): object %v, error %v", src, j, err)
		}
		if err != nil {
			continue
		}
		before, _ := j.Encode()
		for _, k := range []string{"a", "b", "c", "a.b", ""} {
			v, ok := j.CheckGet(k)
			if ok != (v != nil) {
				t.Fatalf("CheckGet(%q) on %s: %v %v", k, src, v, ok)
			}
			if j.Get(k) == nil || j.GetPath(k, "b") == nil || j.GetPath() == nil {
				t.Fatalf("Get/GetPath returned nil on %s", src)
			}
			_ = j.Get(k).Interface()
		}
		after, _ := j.Encode()
		if !bytes.Equal(before, after) {
			t.Fatalf("lookups changed the document %s", src)
		}
	}
	if simplejson.New() == nil {
		t.Fatal("New returned nil")
	}
}
