package gcvaudit

// Assumption audit, library facts added with the provider contracts (contracts/stdlib.spec): net.ParseCIDR gives a network
// whenever it gives no error; go-simplejson's GetIndex always answers with an object and String / StringArray / GetIndex
// leave the document unchanged; path.Join and (*regexp.Regexp).FindString are functions of their arguments.
// Bounded differential testing of the trusted base, never proof.

import (
	"net"
	"path"
	"regexp"
	"testing"

	simplejson "github.com/bitly/go-simplejson"
)

func TestParseCIDRNetworkOrError(t *testing.T) {
	r := rng()
	atoms := []string{"10.0.0.0", "192.168.7.8", "::", "::1", "2001:db8::", "fe80::1", "1.2.3", "300.1.1.1", "", "x", "10.0.0.0/", "::ffff:10.0.0.1"}
	for i := 0; i < 20000; i++ {
		s := atoms[r.Intn(len(atoms))]
		if r.Intn(4) != 0 {
			s += "/" + []string{"0", "8", "24", "32", "33", "64", "128", "129", "-1", "a", ""}[r.Intn(11)]
		}
		ip, n, err := net.ParseCIDR(s)
		if err == nil && (n == nil || ip == nil) {
			t.Fatalf("ParseCIDR(%q): no error but ip=%v net=%v", s, ip, n)
		}
	}
}

func TestSimpleJSONLookupsAnswerAndDoNotModify(t *testing.T) {
	docs := []string{`{}`, `[]`, `null`, `{"elements":[{"handle~":{"emailAddress":"a@b"}}]}`, `{"elements":[]}`, `{"elements":{}}`,
		`{"elements":[1,2]}`, `{"groups":["a","","b"],"email":7}`, `"s"`, `3`, `{"ocs":{"data":{"groups":null}}}`}
	for _, d := range docs {
		j, err := simplejson.NewJson([]byte(d))
		if err != nil {
			t.Fatal(err)
		}
		before, _ := j.MarshalJSON()
		for _, k := range []string{"elements", "groups", "email", "ocs", "missing"} {
			for idx := 0; idx < 3; idx++ {
				g := j.Get(k).GetIndex(idx)
				if g == nil {
					t.Fatalf("%s: Get(%q).GetIndex(%d) is nil", d, k, idx)
				}
				g.String()
				g.StringArray()
				if g.Get("handle~") == nil {
					t.Fatalf("%s: Get on an index result is nil", d)
				}
			}
			j.Get(k).String()
			j.Get(k).StringArray()
		}
		after, _ := j.MarshalJSON()
		if string(before) != string(after) {
			t.Fatalf("%s: lookups modified the document: %s", d, after)
		}
	}
}

func TestPathJoinAndFindStringAreFunctions(t *testing.T) {
	r := rng()
	re := regexp.MustCompile(`^/api/v\d+`)
	for i := 0; i < 5000; i++ {
		a := randStr(r, "/apiv0123./", 12)
		b := randStr(r, "/user.orgs", 10)
		if path.Join(a, b) != path.Join(a, b) {
			t.Fatalf("path.Join not deterministic on %q %q", a, b)
		}
		if re.FindString(a) != re.FindString(a) {
			t.Fatalf("FindString not deterministic on %q", a)
		}
	}
}
