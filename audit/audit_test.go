package gcvaudit

// Assumption audit (thorough tier): differential tests of the executable readings of assumed library contracts in
// /verif/contracts/stdlib.spec against the real standard library. Bounded testing of the TRUSTED BASE: reported
// separately in the evidence, never counted as proof.

import (
	"encoding/base64"
	"math/rand"
	"net/http"
	"os"
	"regexp"
	"strconv"
	"strings"
	"testing"
)

func rng() *rand.Rand {
	seed, _ := strconv.ParseInt(os.Getenv("VERIF_SEED"), 10, 64)
	return rand.New(rand.NewSource(seed + 1))
}

const tokenChars = "abcdefghijklmnopqrstuvwxyzABCDEFGHIJKLMNOPQRSTUVWXYZ0123456789!#$%&'*+-.^_`|~"
const valueChars = "abcdefghijklmnopqrstuvwxyzABCDEFGHIJKLMNOPQRSTUVWXYZ0123456789-_=|"

func randStr(r *rand.Rand, alphabet string, max int) string {
	n := r.Intn(max + 1)
	b := make([]byte, n)
	for i := range b {
		b[i] = alphabet[r.Intn(len(alphabet))]
	}
	return string(b)
}

// (*http.Cookie).String: len == overhead(name, attributes) + len(value), overhead >= len(name)+1, for valid names,
// zero Expires and values over the signed-value alphabet.
func TestCookieStringLengthFormula(t *testing.T) {
	r := rng()
	for i := 0; i < 3000; i++ {
		name := randStr(r, tokenChars, 40)
		if name == "" {
			name = "n"
		}
		c := http.Cookie{Name: name, Path: "/" + randStr(r, "abc/", 10), Domain: []string{"", "example.com", "a.b.example.org"}[r.Intn(3)],
			MaxAge: []int{0, -1, 3600, 604800}[r.Intn(4)], Secure: r.Intn(2) == 0, HttpOnly: r.Intn(2) == 0,
			SameSite: []http.SameSite{0, http.SameSiteLaxMode, http.SameSiteStrictMode, http.SameSiteNoneMode}[r.Intn(4)]}
		c.Value = ""
		base := len(c.String())
		if base < len(name)+1 {
			t.Fatalf("overhead %d < len(name)+1 for %q", base, name)
		}
		for j := 0; j < 4; j++ {
			c.Value = randStr(r, valueChars, 5000)
			if got := len(c.String()); got != base+len(c.Value) {
				t.Fatalf("len(String)=%d, overhead %d + value %d (cookie %+v)", got, base, len(c.Value), c)
			}
		}
	}
}

func TestBase64RoundTripAndAlphabet(t *testing.T) {
	r := rng()
	for _, enc := range []*base64.Encoding{base64.URLEncoding, base64.RawURLEncoding, base64.StdEncoding} {
		for i := 0; i < 3000; i++ {
			b := make([]byte, r.Intn(200))
			r.Read(b)
			s := enc.EncodeToString(b)
			d, err := enc.DecodeString(s)
			if err != nil || string(d) != string(b) {
				t.Fatalf("round trip failed for %x", b)
			}
			if strings.Contains(s, "|") {
				t.Fatalf("encoding contains '|'")
			}
		}
	}
}

func TestStringFunctionBounds(t *testing.T) {
	r := rng()
	for i := 0; i < 5000; i++ {
		s := randStr(r, "ab?#:,@| /.", 12)
		sep := randStr(r, "|@:?, ", 2)
		if sep != "" {
			if len(strings.Split(s, sep)) < 1 {
				t.Fatal("Split len")
			}
			if strings.Contains(s, sep) && len(strings.Split(s, sep)) < 2 {
				t.Fatal("Split of a string containing the separator has fewer than two parts")
			}
			n := r.Intn(4) + 1
			if p := strings.SplitN(s, sep, n); len(p) > n || len(p) < 1 {
				t.Fatal("SplitN len")
			}
		}
		if k := strings.IndexAny(s, "?#"); k < -1 || k >= len(s) && k != -1 {
			t.Fatal("IndexAny")
		}
		if k := strings.LastIndexByte(s, ':'); k < -1 || k >= len(s) && k != -1 || (k >= 0 && s[k] != ':') {
			t.Fatal("LastIndexByte")
		}
		if k := strings.IndexRune(s, ','); k < -1 || k >= len(s) && k != -1 {
			t.Fatal("IndexRune")
		}
	}
}

// built-in model of strings.LastIndex: r == len(s) for an empty separator; otherwise r == -1 and sep does not occur,
// or sep occurs at r and nowhere in s[r+1:]
func TestLastIndexModel(t *testing.T) {
	r := rng()
	for i := 0; i < 20000; i++ {
		s := randStr(r, "ab_", 10)
		sep := randStr(r, "ab_", 3)
		k := strings.LastIndex(s, sep)
		ok := false
		if sep == "" {
			ok = k == len(s)
		} else if k == -1 {
			ok = !strings.Contains(s, sep)
		} else {
			ok = k >= 0 && k+len(sep) <= len(s) && s[k:k+len(sep)] == sep && !strings.Contains(s[k+1:], sep)
		}
		if !ok {
			t.Fatalf("LastIndex(%q, %q) = %d contradicts the model", s, sep, k)
		}
	}
}

// assumed contract of strings.SplitN for n == 2: one element when the separator does not occur, otherwise a split at the
// first occurrence
func TestSplitNTwoModel(t *testing.T) {
	r := rng()
	for i := 0; i < 20000; i++ {
		s := randStr(r, "ab:|", 10)
		sep := randStr(r, ":|a", 2)
		if sep == "" {
			continue
		}
		p := strings.SplitN(s, sep, 2)
		if !strings.Contains(s, sep) {
			if len(p) != 1 || p[0] != s {
				t.Fatalf("SplitN(%q, %q, 2) = %q contradicts the model", s, sep, p)
			}
			continue
		}
		k := strings.Index(s, sep)
		if len(p) != 2 || p[0] != s[:k] || p[1] != s[k+len(sep):] {
			t.Fatalf("SplitN(%q, %q, 2) = %q contradicts the model", s, sep, p)
		}
	}
}

// assumed contract of (*regexp.Regexp).Split for the literal pattern `!?=` and n == 2: no "=" gives the string itself; otherwise
// the cut is at the first "=", and a "!" right before it belongs to the separator
func TestSplitBangEqModel(t *testing.T) {
	r := rng()
	re := regexp.MustCompile("!?=")
	for i := 0; i < 50000; i++ {
		s := randStr(r, "A!=/^", 9)
		p := re.Split(s, 2)
		if !strings.Contains(s, "=") {
			if len(p) != 1 || p[0] != s {
				t.Fatalf("Split(%q) = %q contradicts the model", s, p)
			}
			continue
		}
		k := strings.Index(s, "=")
		first := s[:k]
		if k >= 1 && s[k-1:k] == "!" {
			first = s[:k-1]
		}
		if len(p) != 2 || p[0] != first || p[1] != s[k+1:] {
			t.Fatalf("Split(%q) = %q contradicts the model (want %q, %q)", s, p, first, s[k+1:])
		}
	}
	if strings.ToUpper("") != "" || strings.ToLower("") != "" {
		t.Fatal("case mapping of the empty string")
	}
}

// header ghost model: Get after Del is empty, Add appends under the canonical key, Set replaces
func TestHeaderModel(t *testing.T) {
	r := rng()
	for i := 0; i < 3000; i++ {
		h := http.Header{}
		k1 := randStr(r, "abXY-", 6)
		k2 := randStr(r, "abXY-", 6)
		if k1 == "" || k2 == "" {
			continue
		}
		h.Add(k1, "v1")
		h.Add(k2, "v2")
		h.Del(k1)
		if h.Get(k1) != "" {
			t.Fatal("Del")
		}
		same := http.CanonicalHeaderKey(k1) == http.CanonicalHeaderKey(k2)
		if !same && h.Get(k2) != "v2" {
			t.Fatal("Del removed another key")
		}
		h.Set(k1, "s")
		h.Add(k1, "t")
		if got := strings.Join(h.Values(k1), ","); got != "s,t" {
			t.Fatalf("Set/Add: %q", got)
		}
	}
}

// validCookieName is "the cookie serialises": axiom part-names-of-valid-names-are-valid says that appending "_<k>" to a
// valid name, or to the name cut to 255-len(k) bytes, gives a valid name again; and an invalid name serialises to "".
func TestPartNamesOfValidNamesAreValid(t *testing.T) {
	r := rng()
	valid := func(n string) bool { return (&http.Cookie{Name: n, Value: "v"}).String() != "" }
	for i := 0; i < 5000; i++ {
		n := randStr(r, tokenChars, 300)
		if len(n) > 256 {
			n = n[:256]
		}
		if !valid(n) {
			if n != "" {
				t.Fatalf("token name %q does not serialise", n)
			}
			continue
		}
		k := []int{0, 1, 9, 10, 99, 100, 12345, r.Intn(1 << 30)}[r.Intn(8)]
		ks := strconv.Itoa(k)
		if !valid(n + "_" + ks) {
			t.Fatalf("part name of %q with index %d is not valid", n, k)
		}
		if len(n) >= 255-len(ks) {
			if !valid(n[:255-len(ks)] + "_" + ks) {
				t.Fatalf("cut part name of %q with index %d is not valid", n, k)
			}
		}
	}
	for _, bad := range []string{"", "a b", "a;b", "a=b", "a,b", "a\"b", "a(b", "ä", "a\x00b", "a\tb"} {
		if valid(bad) {
			t.Fatalf("name %q serialises although it is not a token", bad)
		}
	}
}
