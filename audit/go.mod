module gcvaudit

go 1.23
