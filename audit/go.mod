module gcvaudit

go 1.23

require (
	github.com/bitly/go-simplejson v0.5.1
	github.com/pierrec/lz4/v4 v4.1.22
)
