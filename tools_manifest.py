#!/usr/bin/env python3
"""Regenerates MANIFEST.json from manifest_src.json (per-property texts) — keeps the file schema-valid."""
import json, subprocess, sys
src = json.load(open('/verif/manifest_src.json'))
props = [json.loads(l) for l in open('/verif/properties.jsonl')]
checks, na = [], []
for p in props:
    pid = p['id']
    e = src['props'].get(pid)
    if e and e.get('claimed'):
        checks.append({
            "property_id": pid,
            "quick_cmd": f"./check {pid}",
            "thorough_cmd": f"./check {pid} --thorough",
            "evidence_file": f"/verif/evidence/{pid}.json",
            "replay_cmd_template": "./check --replay {path}",
            "engine": "gcv",
            "level_claimed": {"category": "proof", "text": e['text'], "design_ref": e.get('design_ref', f"DESIGN.md section 4 {pid}")},
            "level_note": e['note'],
            "technique": e.get('technique', "contract-based deductive verification: weakest-precondition VCs generated from go/ssa of the real functions, discharged by z3/cvc5"),
        })
    else:
        na.append({"property_id": pid, "reason": (e or {}).get('reason', "not yet under contract in this revision of the machinery (work in progress; see DESIGN.md section 4)")})
hooks = src['hooks']
# every commit in /repo that adds or updates the guarded contract files (subject starts with "verif:"), oldest first
try:
    import subprocess
    log = subprocess.run(['git', '-C', '/repo', 'log', '--format=%h %s'], capture_output=True, text=True).stdout.splitlines()
    commits = [l.split()[0] for l in log if l.split(' ', 1)[1].startswith('verif:')]
    if commits:
        hooks = dict(hooks, source_commits=list(reversed(commits)))
except Exception:
    pass
m = {"version": 1, "setup_cmd": src['setup_cmd'], "hooks": hooks, "engines": src['engines'], "checks": checks, "notes": src['notes'], "not_applicable": na}
json.dump(m, open('/verif/MANIFEST.json', 'w'), indent=1)
print(len(checks), "checks,", len(na), "not applicable")
