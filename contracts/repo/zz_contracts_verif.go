//go:build verif

package main

// Contracts for gcv (comment-only file; compiled only with -tags verif, and then to nothing).

// Configuration of an OAuthProxy is written by NewOAuthProxy only (scan below): its fields are stable.
//@ stable OAuthProxy.*
//@ nonnil OAuthProxy.provider OAuthProxy.sessionStore OAuthProxy.Validator OAuthProxy.pageWriter OAuthProxy.appDirector
//@ nonnil OAuthProxy.redirectValidator OAuthProxy.upstreamProxy OAuthProxy.CookieOptions OAuthProxy.serveMux OAuthProxy.redirectURL

// The e-mail validator configured at construction (validator.go: newValidatorImpl$1, verified nomod below).
//@ func funcval Validator
//@ nomod

// ---------------------------------------------------------------- C01 / C08: who gets through
//@ func (*OAuthProxy).getAuthenticatedSession
//@ prop C01 C08
//@ ensures[only-if] ret1 == nil ==> ret(IsAllowedRequest)
//@     || (ret0 != nil && called(Authorize) && ret0(Authorize) && arg(Authorize, 1) == ret0
//@         && (ret0.Email == "" || (called(Validator) && ret(Validator) && arg(Validator, 0) == ret0.Email)))
//@ ensures[session-from-scope] ret0 == nil || ret0 == old(ret(GetRequestScope).Session)
//@ ensures[deny-nil] ret1 != nil ==> ret0 == nil
//@ ensures[errors] ret1 == nil || ret1 == ErrNeedsLogin || ret1 == ErrAccessDenied
//@ ensures[no-session-needs-login] ret1 == ErrNeedsLogin <==> !ret(IsAllowedRequest) && old(ret(GetRequestScope).Session) == nil
//@ ensures[converse] !ret(IsAllowedRequest) && old(ret(GetRequestScope).Session) != nil && ret1 != nil ==>
//@     (called(Validator) && !ret(Validator)) || !ret0(Authorize)
//@ prop C08
//@ ensures[denied-clears-cookie] ret1 == ErrAccessDenied ==> called(ClearSessionCookie)
//@ at call ClearSessionCookie assert[clear-only-on-deny] (called(Validator) && !ret(Validator)) || !ret0(Authorize)

//@ func (*OAuthProxy).Proxy
//@ prop C01
//@ at call ServeHTTP assert[upstream-only-if-authenticated] ret1(getAuthenticatedSession) == nil
//@     && recv(ServeHTTP) == ret(Then) && arg(Then, 1) == p.upstreamProxy
//@ ensures[served] ret1(getAuthenticatedSession) == nil ==> called(ServeHTTP)
//@ ensures[denied-gets-prompt-or-error] ret1(getAuthenticatedSession) != nil ==>
//@     called(errorJSON) || called(doOAuthStart) || called(SignInPage) || called(ErrorPage)

//@ func (*OAuthProxy).AuthOnly
//@ prop C01 C08
//@ at call ServeHTTP assert[accepted-only-if-authenticated-and-authorized] ret1(getAuthenticatedSession) == nil
//@     && ret(authOnlyAuthorize) && arg(authOnlyAuthorize, 1) == ret0(getAuthenticatedSession)
//@ ensures[served] ret1(getAuthenticatedSession) == nil && ret(authOnlyAuthorize) ==> called(ServeHTTP)
//@ ensures[denied] !called(ServeHTTP) ==> called(http.Error)

//@ func (*OAuthProxy).UserInfo
//@ prop C01
//@ at call Encode assert[userinfo-only-if-session] ret1(getAuthenticatedSession) == nil && ret0(getAuthenticatedSession) != nil
//@ ensures[unauthenticated-401] ret1(getAuthenticatedSession) != nil ==> called(http.Error) && arg(http.Error, 2) == 401 && !called(Encode)
