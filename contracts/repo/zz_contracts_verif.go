//go:build verif

package main

// Contracts for gcv (comment-only file; compiled only with -tags verif, and then to nothing).

// Configuration of an OAuthProxy is written by NewOAuthProxy only (scan below): its fields are stable.
//@ stable OAuthProxy.*
//@ nonnil OAuthProxy.provider OAuthProxy.sessionStore OAuthProxy.Validator OAuthProxy.pageWriter OAuthProxy.appDirector
//@ nonnil OAuthProxy.redirectValidator OAuthProxy.upstreamProxy OAuthProxy.CookieOptions OAuthProxy.serveMux OAuthProxy.redirectURL
//@ nonnil OAuthProxy.trustedIPs

// The e-mail validator configured at construction (validator.go: newValidatorImpl$1, verified nomod below).
//@ func funcval Validator
//@ nomod

// ---------------------------------------------------------------- C01 / C08: who gets through
//@ func (*OAuthProxy).getAuthenticatedSession
//@ prop C01 C08
//@ ensures[only-if] ret1 == nil ==> ret(IsAllowedRequest)
//@     || (ret0 != nil && called(Authorize) && ret0(Authorize) && arg(Authorize, 1) == ret0
//@         && (ret0.Email == "" || (called(Validator) && ret(Validator) && arg(Validator, 0) == ret0.Email)))
//@ ensures[session-from-scope] ret0 == nil || ret0 == old(ret(GetRequestScope).Session)
//@ ensures[deny-nil] ret1 != nil ==> ret0 == nil
//@ ensures[errors] ret1 == nil || ret1 == ErrNeedsLogin || ret1 == ErrAccessDenied
//@ ensures[no-session-needs-login] ret1 == ErrNeedsLogin <==> !ret(IsAllowedRequest) && old(ret(GetRequestScope).Session) == nil
//@ ensures[converse] !ret(IsAllowedRequest) && old(ret(GetRequestScope).Session) != nil && ret1 != nil ==>
//@     (called(Validator) && !ret(Validator)) || !ret0(Authorize)
//@ prop C08
//@ ensures[denied-clears-cookie] ret1 == ErrAccessDenied ==> called(ClearSessionCookie)
//@ at call ClearSessionCookie assert[clear-only-on-deny] (called(Validator) && !ret(Validator)) || !ret0(Authorize)

//@ func (*OAuthProxy).Proxy
//@ prop C01 C07
//@ at call ServeHTTP assert[upstream-only-if-authenticated] ret1(getAuthenticatedSession) == nil
//@     && recv(ServeHTTP) == ret(Then) && arg(Then, 1) == p.upstreamProxy
//@ at call ServeHTTP assert[upstream-only-behind-the-headers-chain] recv(ServeHTTP) == ret(Then) && arg(Then, 0) == p.headersChain
//@     && arg(Then, 1) == p.upstreamProxy && arg(ServeHTTP, 0) == rw && arg(ServeHTTP, 1) == req
//@ prop C01
//@ ensures[served] ret1(getAuthenticatedSession) == nil ==> called(ServeHTTP)
//@ ensures[denied-gets-prompt-or-error] ret1(getAuthenticatedSession) != nil ==>
//@     called(errorJSON) || called(doOAuthStart) || called(SignInPage) || called(ErrorPage)

//@ func (*OAuthProxy).AuthOnly
//@ prop C01 C08
//@ at call ServeHTTP assert[accepted-only-if-authenticated-and-authorized] ret1(getAuthenticatedSession) == nil
//@     && ret(authOnlyAuthorize) && arg(authOnlyAuthorize, 1) == ret0(getAuthenticatedSession)
//@ ensures[served] ret1(getAuthenticatedSession) == nil && ret(authOnlyAuthorize) ==> called(ServeHTTP)
//@ ensures[denied] !called(ServeHTTP) ==> called(http.Error)

//@ func (*OAuthProxy).UserInfo
//@ prop C01
//@ at call Encode assert[userinfo-only-if-session] ret1(getAuthenticatedSession) == nil && ret0(getAuthenticatedSession) != nil
//@ ensures[unauthenticated-401] ret1(getAuthenticatedSession) != nil ==> called(http.Error) && arg(http.Error, 2) == 401 && !called(Encode)

// ---------------------------------------------------------------- C03 / C06: the OAuth state carries nonce and redirect, byte for byte
// The state is "<nonce>:<redirect>", base64url (unpadded) when encode_state is on. Decoding splits at the FIRST colon: the
// nonce is a base64url hash and has none, the redirect may have many.
//@ define stateOf(n string, r string, e bool) string = ite(e, b64enc(base64.RawURLEncoding, n + ":" + r), n + ":" + r)
//@ define stateText(s string, e bool) string = ite(e, b64dec(base64.RawURLEncoding, s), s)
//@ define stateNonce(s string, e bool) string = stateText(s, e)[:Index(stateText(s, e), ":")]
//@ define stateRedirect(s string, e bool) string = stateText(s, e)[Index(stateText(s, e), ":") + 1:]
//@ prop C03 C06
//@ lemma[state-round-trip; uses b64-roundtrip] forall n string, r string, e bool :: !Contains(n, ":") ==> Contains(stateText(stateOf(n, r, e), e), ":")
//@     && stateNonce(stateOf(n, r, e), e) == n && stateRedirect(stateOf(n, r, e), e) == r

//@ func encodeState
//@ safety
//@ nomod
//@ prop C03 C06
//@ ensures[state-is-nonce-colon-redirect] result == stateOf(nonce, redirect, encode)

//@ func decodeState
//@ safety
//@ nomod
//@ prop C03 C06
//@ ensures[splits-at-the-first-colon] Contains(stateText(state, encode), ":") ==> ret2 == nil && ret0 == stateNonce(state, encode) && ret1 == stateRedirect(state, encode)
//@ ensures[no-colon-is-an-error] !Contains(stateText(state, encode), ":") ==> ret2 != nil

// ---------------------------------------------------------------- C03 / C05 / C08 / C13 / C14 / C06: the login callback
//@ func (*OAuthProxy).OAuthCallback
//@ prop C03
//@ at call SaveSession assert[state-matches-validated-csrf-cookie-of-this-login] ret2(decodeState) == nil
//@     && arg(decodeState, 0) == ret(Get#1) && arg(Get#1, 1) == "state"
//@     && arg(GenerateCookieName, 0) == p.CookieOptions && arg(GenerateCookieName, 1) == ret0(decodeState)
//@     && ret1(LoadCSRFCookie) == nil && arg(LoadCSRFCookie, 0) == req && arg(LoadCSRFCookie, 1) == ret(GenerateCookieName)
//@     && arg(LoadCSRFCookie, 2) == p.CookieOptions
//@     && ret(CheckOAuthState) && recv(CheckOAuthState) == ret0(LoadCSRFCookie) && arg(CheckOAuthState, 0) == ret0(decodeState)
//@ ensures[csrf-failure-is-error-page-without-session] ret2(decodeState) != nil || (called(LoadCSRFCookie) && ret1(LoadCSRFCookie) != nil)
//@     || (called(CheckOAuthState) && !ret(CheckOAuthState)) ==> called(ErrorPage) && !called(SaveSession)
//@ ensures[converse-matching-login-succeeds] called(CheckOAuthState) && ret(CheckOAuthState) && ret(ValidateSession)
//@     && ret(Validator) && ret0(Authorize) ==> called(SaveSession)
//@ prop C05
//@ at call SaveSession assert[verifier-and-nonce-from-this-logins-cookie] ret1(redeemCode) == nil
//@     && arg(redeemCode, 2) == ret(GetCodeVerifier) && recv(GetCodeVerifier) == ret0(LoadCSRFCookie)
//@     && called(SetSessionNonce) && recv(SetSessionNonce) == ret0(LoadCSRFCookie) && arg(SetSessionNonce, 0) == ret0(redeemCode)
//@     && ret(ValidateSession) && arg(ValidateSession, 1) == ret0(redeemCode) && arg(SaveSession, 3) == ret0(redeemCode)
//@ prop C14
//@ at call SaveSession assert[no-session-on-provider-failure] ret1(redeemCode) == nil && ret(enrichSessionState) == nil
//@     && arg(enrichSessionState, 2) == ret0(redeemCode) && ret(ValidateSession)
//@ ensures[provider-failure-is-error-page] (called(redeemCode) && ret1(redeemCode) != nil) || (called(enrichSessionState) && ret(enrichSessionState) != nil)
//@     || (called(ValidateSession) && !ret(ValidateSession)) ==> called(ErrorPage) && !called(SaveSession)
//@ prop C08
//@ at call SaveSession assert[login-only-for-authorised-identity] ret(Validator) && ret0(Authorize)
//@     && arg(Authorize, 1) == ret0(redeemCode)
//@ ensures[unauthorised-login-gets-no-session] (called(Validator) && !ret(Validator)) || (called(Authorize) && !ret0(Authorize))
//@     ==> !called(SaveSession) && called(ErrorPage)
//@ prop C13 C06
//@ at call http.Redirect assert[redirect-only-after-persisted-to-validated-target] ret(SaveSession) == nil
//@     && (arg(http.Redirect, 2) == "/" || (ret(IsValidRedirect) && arg(IsValidRedirect, 0) == arg(http.Redirect, 2)
//@         && arg(http.Redirect, 2) == ret1(decodeState)))
//@ ensures[save-failure-is-error-page] called(SaveSession) && ret(SaveSession) != nil ==> called(ErrorPage) && !called(http.Redirect)
//@ prop C03 C14
//@ ensures[every-request-answered] called(http.Redirect) || called(ErrorPage)

//@ func (*OAuthProxy).redeemCode
//@ prop C14 C05
//@ ensures[session-only-from-successful-redeem] ret1 == nil ==> called(Redeem) && ret1(Redeem) == nil && ret0 == ret0(Redeem)
//@     && arg(Redeem, 3) == codeVerifier && arg(Redeem, 2) == ret(Get) && ret(Get) != ""
//@ ensures[error-means-no-session] ret1 != nil ==> ret0 == nil
//@ prop C12 C09
//@ ensures[a-redeemed-session-has-an-issue-time-and-an-expiry] ret1 == nil ==> ret0.CreatedAt != nil && ret0.ExpiresOn != nil

//@ func (*OAuthProxy).enrichSessionState
//@ prop C14
//@ ensures[email-lookup-error-propagates] called(GetEmailAddress) && ret1(GetEmailAddress) != nil
//@     && !errors.Is(ret1(GetEmailAddress), providers.ErrNotImplemented) ==> ret0 == ret1(GetEmailAddress) && !called(EnrichSession)
//@ ensures[enrich-error-propagates] called(EnrichSession) ==> ret0 == ret(EnrichSession)

// ---------------------------------------------------------------- C05 / C06 / C03: starting a login
//@ func (*OAuthProxy).doOAuthStart
//@ prop C05
//@ at call GetLoginURL assert[hashed-nonce-and-state-never-raw] arg(GetLoginURL, 2) == ret(HashOIDCNonce) && recv(HashOIDCNonce) == ret0(NewCSRF)
//@     && arg(GetLoginURL, 1) == ret(encodeState) && arg(encodeState, 0) == ret(HashOAuthState) && recv(HashOAuthState) == ret0(NewCSRF)
//@     && ret1(NewCSRF) == nil
//@ at call NewCSRF assert[verifier-goes-into-the-cookie] arg(NewCSRF, 0) == p.CookieOptions
//@     && (called(GenerateCodeVerifierString) ==> arg(NewCSRF, 1) == ret0(GenerateCodeVerifierString) && ret1(GenerateCodeVerifierString) == nil)
//@     && (!called(GenerateCodeVerifierString) ==> arg(NewCSRF, 1) == "")
//@ at call GenerateCodeVerifierString assert[rfc7636-length] arg(GenerateCodeVerifierString, 0) == 96
//@ at call GenerateCodeChallenge assert[challenge-from-this-verifier] arg(GenerateCodeChallenge, 1) == ret0(GenerateCodeVerifierString)
//@ at call Add#0 assert[challenge-param] arg(Add#0, 1) == "code_challenge" && arg(Add#0, 2) == ret0(GenerateCodeChallenge) && ret1(GenerateCodeChallenge) == nil
//@ at call Add#1 assert[method-param] arg(Add#1, 1) == "code_challenge_method"
//@ prop C03 C06 C13
//@ at call http.Redirect assert[login-redirect-only-after-csrf-cookie-set-to-provider-url] ret1(SetCookie) == nil && recv(SetCookie) == ret0(NewCSRF)
//@     && arg(http.Redirect, 2) == ret(GetLoginURL) && ret1(GetRedirect) == nil && arg(encodeState, 1) == ret0(GetRedirect)
//@ ensures[every-request-answered] called(http.Redirect) || called(ErrorPage)

// ---------------------------------------------------------------- C11 / C13 / C06: sign-out, sign-in
//@ func (*OAuthProxy).SignOut
//@ prop C11 C13 C06
//@ at call http.Redirect assert[success-redirect-only-after-clear-succeeded] ret(ClearSessionCookie) == nil && ret1(GetRedirect) == nil
//@     && arg(http.Redirect, 2) == ret0(GetRedirect)
//@ ensures[clear-failure-is-error-page] called(ClearSessionCookie) && ret(ClearSessionCookie) != nil ==> called(ErrorPage) && !called(http.Redirect)
//@ ensures[always-tries-to-clear] ret1(GetRedirect) == nil ==> called(ClearSessionCookie)

//@ func (*OAuthProxy).SignIn
//@ prop C13 C06 C01
//@ at call http.Redirect assert[redirect-only-after-persisted] ret(SaveSession) == nil && ret1(ManualSignIn) && ret1(GetRedirect) == nil
//@     && arg(http.Redirect, 2) == ret0(GetRedirect)
//@ at call SaveSession assert[session-only-for-validated-password] ret1(ManualSignIn) && arg(SaveSession, 3).User == ret0(ManualSignIn)
//@ ensures[save-failure-is-error-page] called(SaveSession) && ret(SaveSession) != nil ==> called(ErrorPage) && !called(http.Redirect)

//@ func (*OAuthProxy).ManualSignIn
//@ prop C01
//@ ensures[ok-only-if-validated] ret1 ==> called(Validate) && ret(Validate) && arg(Validate, 0) == ret0 && ret0 != ""
//@ prop C19 C01
//@ ensures[status-for-the-sign-in-page] ret2 == 200 || ret2 == 400 || ret2 == 401

//@ func (*OAuthProxy).SignInPage
//@ prop C13 C11 C19
//@ requires[a-three-digit-status-code] 100 <= code && code <= 999
//@ at call WriteHeader assert[page-only-after-cookie-cleared] ret(ClearSessionCookie) == nil
//@ ensures[clear-failure-is-error-page] ret(ClearSessionCookie) != nil ==> called(ErrorPage) && !called(WriteSignInPage)

//@ func (*OAuthProxy).ErrorPage
//@ prop C06
//@ at call WriteErrorPage assert[redirect-target-is-root-or-directors] arg(WriteErrorPage, 1).RedirectURL == "/"
//@     || arg(WriteErrorPage, 1).RedirectURL == ret0(GetRedirect)

//@ func (*OAuthProxy).ClearSessionCookie
//@ prop C11 C13
//@ ensures[store-clear-passthrough] ret0 == ret(Clear) && arg(Clear, 0) == rw && arg(Clear, 1) == req && recv(Clear) == p.sessionStore

//@ func (*OAuthProxy).SaveSession
//@ prop C13
//@ ensures[store-save-passthrough] ret0 == ret(Save) && arg(Save, 2) == s && recv(Save) == p.sessionStore

// ---------------------------------------------------------------- C08: e-mail and group rules
//@ define lastAtom(e string) string = strings.Split(e, "@")[len(strings.Split(e, "@")) - 1]
//@ define domainRule(e string, d string) bool = HasSuffix(e, "@" + d) || (HasPrefix(d, ".") && HasSuffix(lastAtom(e), d))
//@     || (HasPrefix(d, "*.") && HasSuffix(lastAtom(e), d[1:]))

//@ prop C08
//@ lemma[NoLookalike] forall e string, d string :: domainRule(e, d) && !HasPrefix(d, ".") && !HasPrefix(d, "*.") ==> HasSuffix(e, "@" + d)
//@ lemma[DotNeedsDot] forall e string, d string :: domainRule(e, d) && HasPrefix(d, ".") && !HasSuffix(e, "@" + d) ==> HasSuffix(lastAtom(e), d)

//@ func isEmailValidWithDomains
//@ safety
//@ nomod
//@ prop C08
//@ loop 0 invariant[no-earlier-domain-matched] rangeindex >= -1 && forall j int :: 0 <= j && j <= rangeindex ==> !domainRule(email, allowedDomains[j])
//@ ensures[only-if-some-domain-rule-matches] result ==> exists k int :: 0 <= k && k < len(allowedDomains) && domainRule(email, allowedDomains[k])
//@ ensures[if-some-domain-rule-matches] !result ==> forall j int :: 0 <= j && j < len(allowedDomains) ==> !domainRule(email, allowedDomains[j])

// the validator is built over the configured allow-list file (that very path: the watcher follows it through renames and
// symlink swaps) and the configured domains; it allows everybody only if a "*" rule is configured
//@ func newValidatorImpl
//@ safety
//@ prop C08 C20
//@ at call NewUserMap assert[the-allow-list-is-the-configured-file] arg(NewUserMap, 0) == usersFile && arg(NewUserMap, 1) == done
//@     && arg(NewUserMap, 2) == onUpdate
//@ loop 0 invariant[allow-all-only-for-a-star-rule] rangeindex >= -1 && rangeindex < len(domains) && (allowAll ==> exists j int :: 0 <= j && j <= rangeindex && domains[j] == "*")
//@ ensures[allow-all-only-for-a-star-rule] allowAll ==> exists j int :: 0 <= j && j < len(domains) && domains[j] == "*"

//@ func newValidatorImpl$1
//@ nomod
//@ prop C08 C14 C01
//@ ensures[empty-email-never-valid] email == "" ==> !valid
//@ ensures[rule] email != "" ==> (valid <==> allowAll || ret(isEmailValidWithDomains) || (called(IsValid) && ret(IsValid)))
//@ ensures[checks-the-lowercased-email] email != "" ==> arg(isEmailValidWithDomains, 0) == strings.ToLower(email)
//@     && arg(isEmailValidWithDomains, 1) == domains && (called(IsValid) ==> arg(IsValid, 1) == strings.ToLower(email))

//@ func (*UserMap).IsValid
//@ nomod
//@ prop C08 C20

// auth-only query constraints: each constraint function is a deterministic read-only predicate of (request, session)
//@ abstract holds(ref, ref, ref) bool
//@ func funcval constraint
//@ nomod
//@ ensures result == holds(self, a0, a1)

//@ func authOnlyAuthorize
//@ nilable s
//@ safety
//@ prop C08
//@ loop 0 invariant[all-earlier-constraints-held] rangeindex >= -1 && rangeindex < 3 && forall j int :: 0 <= j && j <= rangeindex ==> holds(constraints[j], req, s)
//@ ensures[bypassed-request-has-no-session-to-check] s == nil ==> result
//@ ensures[all-three-constraints-must-hold] s != nil && result ==> len(constraints) == 3
//@     && constraints[0] == checkAllowedGroups && constraints[1] == checkAllowedEmailDomains && constraints[2] == checkAllowedEmails
//@     && holds(constraints[0], req, s) && holds(constraints[1], req, s) && holds(constraints[2], req, s)

//@ func checkAllowedGroups
//@ safety
//@ prop C08
//@ loop 0 invariant[no-earlier-group-allowed] rangeindex >= -1 && forall j int :: 0 <= j && j <= rangeindex ==> !inmap(allowedGroups, s.Groups[j])
//@ ensures[unconstrained] len(ret(extractAllowedEntities)) == 0 ==> result
//@ ensures[needs-a-common-group] len(ret(extractAllowedEntities)) != 0 ==>
//@     (result <==> exists k int :: 0 <= k && k < len(s.Groups) && inmap(ret(extractAllowedEntities), s.Groups[k]))
//@ ensures[reads-allowed_groups] arg(extractAllowedEntities, 1) == "allowed_groups" && arg(extractAllowedEntities, 0) == req

// the auth-only constraints are the comma-separated, non-empty items of the URL query's values for the key: read from the
// query string only (a request body has no say), and without touching the request
//@ func extractAllowedEntities
//@ safety
//@ nomod
//@ fresh
//@ prop C08
//@ at call Query assert[constraints-come-from-the-url-query] recv(Query) == req.URL
//@ loop 0 invariant[only-non-empty-items] !inmap(entities, "") && rangeindex >= -1 && (len(ret(Query)[key]) == 0 ==> len(entities) == 0)
//@ loop 1 invariant[only-non-empty-items] !inmap(entities, "") && len(ret(Query)[key]) > 0
//@ ensures[from-the-query-values-of-the-key] called(Query) && !inmap(result, "") && (len(ret(Query)[key]) == 0 ==> len(result) == 0)

//@ func checkAllowedEmails
//@ safety
//@ prop C08
//@ ensures[unconstrained] len(ret(extractAllowedEntities)) == 0 ==> result
//@ ensures[needs-the-email-listed] len(ret(extractAllowedEntities)) != 0 && result ==> inmap(ret(extractAllowedEntities), s.Email)
//@ ensures[reads-allowed_emails] arg(extractAllowedEntities, 1) == "allowed_emails" && arg(extractAllowedEntities, 0) == req

//@ func checkAllowedEmailDomains
//@ safety
//@ prop C08
//@ ensures[unconstrained] len(ret(extractAllowedEntities)) == 0 ==> result
//@ ensures[malformed-email-refused] len(ret(extractAllowedEntities)) != 0 && len(strings.Split(s.Email, "@")) != 2 ==> !result
//@ ensures[domain-must-be-allowed] len(ret(extractAllowedEntities)) != 0 && result ==> called(IsEndpointAllowed) && ret(IsEndpointAllowed)
//@ at call IsEndpointAllowed assert[checks-the-emails-domain] arg(IsEndpointAllowed, 0).Host == strings.Split(s.Email, "@")[1]
//@ ensures[reads-allowed_email_domains] arg(extractAllowedEntities, 1) == "allowed_email_domains" && arg(extractAllowedEntities, 0) == req

// ---------------------------------------------------------------- C15: bypass rules
// pathPart(u): the path component of a request URI (everything before the first '?' or '#').
//@ define pathPart(u string) string = ite(strings.IndexAny(u, "?#") >= 0, u[0:strings.IndexAny(u, "?#")], u)

// A skip-auth route is written "regex", "METHOD=regex" or "METHOD!=regex": the separator is the first "=" (with a "!" right
// before it, the rule is negated); what follows is the regular expression, whatever it contains.
//@ define ruleEq(r string) int = Index(r, "=")
//@ define ruleNegated(r string) bool = ruleEq(r) >= 1 && r[ruleEq(r) - 1:ruleEq(r)] == "!"
//@ define rulePath(r string) string = ite(Contains(r, "="), r[ruleEq(r) + 1:], r)
//@ define ruleMethod(r string) string = ite(!Contains(r, "="), "", ite(ruleNegated(r), r[:ruleEq(r) - 1], r[:ruleEq(r)]))

//@ func buildRoutesAllowlist
//@ safety
//@ prop C15 C19
//@ loop 0 invariant[legacy-rules-so-far] rangeindex >= -1 && rangeindex < len(opts.SkipAuthRegex) && len(routes) == rangeindex + 1
//@ loop 1 invariant[route-rules-so-far] rangeindex >= -1 && rangeindex < len(opts.SkipAuthRoutes) && len(routes) == len(opts.SkipAuthRegex) + rangeindex + 1
//@ at call append#0 assert[legacy-rule-any-method-not-negated] arg(append#0, 1)[0].method == "" && !arg(append#0, 1)[0].negate
//@     && arg(append#0, 1)[0].pathRegex == ret0(Compile#0) && ret1(Compile#0) == nil && arg(Compile#0, 0) == path
//@ at call append#1 assert[rule-is-method-negation-regex-as-written] arg(append#1, 1)[0].negate == ruleNegated(methodPath)
//@     && arg(append#1, 1)[0].method == ite(Contains(methodPath, "="), strings.ToUpper(ruleMethod(methodPath)), "")
//@     && arg(append#1, 1)[0].pathRegex == ret0(Compile#1)
//@     && ret1(Compile#1) == nil && arg(Compile#1, 0) == rulePath(methodPath)
//@ ensures[an-uncompilable-rule-is-an-error] (called(Compile#0) && ret1(Compile#0) != nil) || (called(Compile#1) && ret1(Compile#1) != nil) ==> ret1 != nil && ret0 == nil
//@ ensures[one-route-per-configured-rule] ret1 == nil ==> len(ret0) == len(opts.SkipAuthRegex) + len(opts.SkipAuthRoutes)

//@ func (*OAuthProxy).IsAllowedRequest
//@ nomod
//@ prop C15 C01
//@ ensures[exactly-the-three-bypasses] result <==> (p.skipAuthPreflight && req.Method == "OPTIONS")
//@     || (called(isAllowedRoute) && ret(isAllowedRoute)) || (called(isTrustedIP) && ret(isTrustedIP))
//@ ensures[same-request] (called(isAllowedRoute) ==> arg(isAllowedRoute, 1) == req) && (called(isTrustedIP) ==> arg(isTrustedIP, 1) == req)

//@ func isAllowedMethod
//@ nomod
//@ prop C15
//@ ensures[method-equals-or-unnamed] result <==> route.method == "" || req.Method == route.method

//@ func isAllowedPath
//@ nomod
//@ prop C15
//@ ensures[regex-on-path-only-with-negation] result <==> (reMatch(route.pathRegex, ret(requestPath)) != route.negate)
//@ ensures[same-request] arg(requestPath, 0) == req

//@ func requestPath
//@ safety
//@ nomod
//@ prop C15
//@ ensures[path-without-query-or-fragment] result == pathPart(ret(GetRequestURI)) && arg(GetRequestURI, 0) == req

//@ func (*OAuthProxy).isAllowedRoute
//@ nomod
//@ prop C15
//@ ensures[only-if-a-rule-matches-method-and-path] result ==> called(isAllowedMethod) && ret(isAllowedMethod) && called(isAllowedPath) && ret(isAllowedPath)
//@     && arg(isAllowedMethod, 1) == arg(isAllowedPath, 1) && arg(isAllowedMethod, 0) == req && arg(isAllowedPath, 0) == req

//@ func (*OAuthProxy).isTrustedIP
//@ nomod
//@ prop C15 C16
//@ ensures[only-members-of-the-trusted-set] result ==> called(Has) && ret(Has) && arg(Has, 1) == ret0(GetClientIP) && ret1(GetClientIP) == nil
//@     && arg(Has, 0) == p.trustedIPs
//@ ensures[parser-error-not-trusted] called(GetClientIP) && ret1(GetClientIP) != nil ==> !result
//@ ensures[uses-configured-parser] called(GetClientIP) ==> arg(GetClientIP, 0) == p.realClientIPParser && arg(GetClientIP, 1) == req
//@ ensures[members-are-trusted] called(Has) ==> result == ret(Has)

// ---------------------------------------------------------------- structural obligations (whole-repository SSA scans)
//@ prop C01
//@ scan[upstream-handler-readers] field-readers OAuthProxy.upstreamProxy main.(*OAuthProxy).Proxy
//@ scan[authenticated-session-callers] callers (*OAuthProxy).getAuthenticatedSession main.(*OAuthProxy).Proxy main.(*OAuthProxy).AuthOnly main.(*OAuthProxy).UserInfo main.(*OAuthProxy).backendLogout
//@ scan[proxy-configuration-writers] field-writers OAuthProxy.* main.NewOAuthProxy main.(*OAuthProxy).buildServeMux main.(*OAuthProxy).setupServer
//@ prop C03 C13 C14 C08
//@ scan[save-session-callers] callers (*OAuthProxy).SaveSession main.(*OAuthProxy).SignIn main.(*OAuthProxy).OAuthCallback

// ---------------------------------------------------------------- C20: the authenticated-emails map is published atomically
//@ prop C20
//@ scan[usermap-pointer-atomic-only] atomic-only UserMap.m
//@ scan[published-map-never-updated] frozen-after-publish main.(*UserMap).LoadAuthenticatedEmailsFile main.NewUserMap

//@ func (*UserMap).LoadAuthenticatedEmailsFile
//@ prop C20
//@ at call StorePointer assert[only-a-completely-read-file-is-published] ret1(ReadAll) == nil
//@ ensures[read-error-keeps-old-contents] called(ReadAll) && ret1(ReadAll) != nil ==> !called(StorePointer)
//@ prop C20 C08
//@ ensures[a-completely-read-file-is-always-published] called(ReadAll) && ret1(ReadAll) == nil ==> called(StorePointer)
//@ loop 0 invariant[the-new-map-holds-exactly-the-addresses-read-so-far] rangeindex >= -1 && rangeindex < len(records)
//@     && (forall j int :: 0 <= j && j <= rangeindex ==> inmap(updated, strings.ToLower(strings.TrimSpace(records[j][0]))))
//@     && (forall a string :: inmap(updated, a) ==> exists j int :: 0 <= j && j <= rangeindex && a == strings.ToLower(strings.TrimSpace(records[j][0])))
//@ at call StorePointer assert[published-map-holds-exactly-the-files-addresses] true &&
//@     (forall j int :: 0 <= j && j < len(records) ==> inmap(updated, strings.ToLower(strings.TrimSpace(records[j][0]))))
//@     && (forall a string :: inmap(updated, a) ==> exists j int :: 0 <= j && j < len(records) && a == strings.ToLower(strings.TrimSpace(records[j][0])))

// ---------------------------------------------------------------- C01: wiring of the session loaders and handlers
//@ func buildSessionChain
//@ prop C01 C12
//@ ensures[stored-session-loader-always-last] called(NewStoredSessionLoader)
//@ ensures[bearer-loader-only-when-enabled] called(NewJwtSessionLoader) <==> opts.SkipJwtBearerTokens
//@ ensures[basic-loader-only-with-a-validator] called(NewBasicAuthSessionLoader) <==> validator != nil
//@ at call NewBasicAuthSessionLoader assert[basic-loader-uses-the-htpasswd-validator] arg(NewBasicAuthSessionLoader, 0) == validator
//@ at call NewStoredSessionLoader assert[store-refresh-validate-from-this-proxy] arg(NewStoredSessionLoader, 0).SessionStore == sessionStore
//@     && arg(NewStoredSessionLoader, 0).RefreshPeriod == opts.Cookie.Refresh
//@ prop C19 C01
//@ at call NewStoredSessionLoader assert[nonnil:loader-gets-a-store-a-refresher-and-a-validator] arg(NewStoredSessionLoader, 0).SessionStore != nil
//@     && arg(NewStoredSessionLoader, 0).RefreshSession != nil && arg(NewStoredSessionLoader, 0).ValidateSession != nil
//@ prop C19
//@ scan[nonnil:proxy-allocated-by-its-constructor] alloc-of main.OAuthProxy main.NewOAuthProxy

// every handler that consults getAuthenticatedSession is registered behind the session chain, and only there
//@ prop C01
//@ scan[proxy-handler-behind-session-chain] method-value-wrapped (*OAuthProxy).Proxy ThenFunc sessionChain main.(*OAuthProxy).buildServeMux
//@ scan[authonly-handler-behind-session-chain] method-value-wrapped (*OAuthProxy).AuthOnly ThenFunc sessionChain main.(*OAuthProxy).buildServeMux
//@ scan[userinfo-handler-behind-session-chain] method-value-wrapped (*OAuthProxy).UserInfo ThenFunc sessionChain main.(*OAuthProxy).buildProxySubrouter
//@ scan[signout-handler-behind-session-chain] method-value-wrapped (*OAuthProxy).SignOut ThenFunc sessionChain main.(*OAuthProxy).buildProxySubrouter

// ---------------------------------------------------------------- wiring: the proxy is assembled from the options it was given
// (checked on the finished struct at the point it is handed to buildServeMux; after that only the two scan-listed
// functions may write OAuthProxy fields)
//@ func NewOAuthProxy
//@ shallow
//@ prop C01 C15 C16 C17 C06 C07 C09
//@ at call buildServeMux assert[session-store-and-loaders-wired] recv(buildServeMux).sessionStore == ret0(NewSessionStore)
//@     && arg(buildSessionChain, 2) == ret0(NewSessionStore) && arg(buildSessionChain, 1) == ret0(NewProvider)
//@     && recv(buildServeMux).sessionChain == ret(buildSessionChain) && recv(buildServeMux).provider == ret0(NewProvider)
//@     && arg(buildSessionChain, 3) == recv(buildServeMux).basicAuthValidator
//@ at call buildServeMux assert[validator-and-cookie-options-wired] recv(buildServeMux).Validator == validator
//@     && recv(buildServeMux).CookieOptions == &opts.Cookie
//@ at call buildServeMux assert[bypass-rules-wired] recv(buildServeMux).trustedIPs == ret(NewNetSet)
//@     && recv(buildServeMux).allowedRoutes == ret0(buildRoutesAllowlist) && recv(buildServeMux).apiRoutes == ret0(buildAPIRoutes)
//@ at call buildServeMux assert[preflight-bypass-from-its-option] recv(buildServeMux).skipAuthPreflight == opts.SkipAuthPreflight
//@ at call buildServeMux assert[redirect-validation-wired] recv(buildServeMux).redirectValidator == ret(NewValidator)
//@     && arg(NewAppDirector, 0).Validator == ret(NewValidator)
//@     && recv(buildServeMux).appDirector == ret(NewAppDirector)
//@ at call buildServeMux assert[header-and-preauth-chains-wired] recv(buildServeMux).headersChain == ret0(buildHeadersChain)
//@     && recv(buildServeMux).preAuthChain == ret0(buildPreAuthChain) && recv(buildServeMux).upstreamProxy == ret0(NewProxy)
//@ at call NewValidator assert[redirect-validator-gets-the-whitelist-option] arg(NewValidator, 0) == opts.WhitelistDomains
//@ at call NewHTPasswdValidator assert[htpasswd-validator-only-from-the-configured-file] opts.HtpasswdFile != ""
//@     && arg(NewHTPasswdValidator, 0) == opts.HtpasswdFile
//@ at call buildServeMux assert[basic-auth-only-with-an-htpasswd-file] (!called(NewHTPasswdValidator) ==> recv(buildServeMux).basicAuthValidator == nil)
//@     && (called(NewHTPasswdValidator) ==> recv(buildServeMux).basicAuthValidator == ret0(NewHTPasswdValidator))
// every configured trusted network is parsed and added to the set, in order; an unparsable one is a start-up error
//@ loop 1 ghost nadded int init 0 step ite(called(AddIPNet), nadded + 1, nadded)
//@ loop 1 invariant[every-configured-trusted-network-so-far-was-added] rangeindex >= -1 && nadded == rangeindex + 1
//@     && rangeindex < len(opts.TrustedIPs)
//@ at call AddIPNet assert[adds-the-parsed-configured-network-to-the-proxys-set] arg(AddIPNet, 0) == ret(NewNetSet)
//@     && ret(ParseIPNet) != nil && arg(AddIPNet, 1) == deref(ret(ParseIPNet)) && arg(ParseIPNet, 0) == ipStr
//@ at call buildRoutesAllowlist assert[all-configured-trusted-networks-were-added] nadded == len(opts.TrustedIPs)
// the fields declared `nonnil` at the top of this file (request handling dereferences them unchecked) are established here
//@ prop C19 C01
//@ at call buildServeMux assert[trustedips-is-set-before-the-proxy-serves] recv(buildServeMux).trustedIPs != nil
//@ at call buildServeMux assert[sessionstore-is-set-before-the-proxy-serves] recv(buildServeMux).sessionStore != nil
//@ at call buildServeMux assert[provider-is-set-before-the-proxy-serves] recv(buildServeMux).provider != nil
//@ at call buildServeMux assert[pagewriter-is-set-before-the-proxy-serves] recv(buildServeMux).pageWriter != nil
//@ at call buildServeMux assert[appdirector-is-set-before-the-proxy-serves] recv(buildServeMux).appDirector != nil
//@ at call buildServeMux assert[redirectvalidator-is-set-before-the-proxy-serves] recv(buildServeMux).redirectValidator != nil
//@ at call buildServeMux assert[upstreamproxy-is-set-before-the-proxy-serves] recv(buildServeMux).upstreamProxy != nil
//@ at call buildServeMux assert[cookieoptions-is-set-before-the-proxy-serves] recv(buildServeMux).CookieOptions != nil
//@ at call buildServeMux assert[validator-is-set-before-the-proxy-serves] recv(buildServeMux).Validator != nil
//@ prop C01 C15 C16 C17 C06 C07 C09
//@ ensures[errors-produce-no-proxy] ret1 != nil ==> ret0 == nil
//@ ensures[result-is-the-assembled-proxy] ret1 == nil ==> ret0 == recv(buildServeMux)

// ---------------------------------------------------------------- C07: the headers chain is the two injectors built from the options
//@ func buildHeadersChain
//@ prop C07
//@ at call NewRequestHeaderInjector assert[request-injector-from-the-request-header-option] arg(NewRequestHeaderInjector, 0) == opts.InjectRequestHeaders
//@ at call NewResponseHeaderInjector assert[response-injector-from-the-response-header-option] arg(NewResponseHeaderInjector, 0) == opts.InjectResponseHeaders
//@ at call New assert[chain-is-request-then-response-injector] len(arg(New, 0)) == 2 && arg(New, 0)[0] == ret0(NewRequestHeaderInjector)
//@     && arg(New, 0)[1] == ret0(NewResponseHeaderInjector)
//@ ensures[no-error-means-both-injectors] ret1 == nil ==> called(New) && ret0 == ret(New) && ret1(NewRequestHeaderInjector) == nil
//@     && ret1(NewResponseHeaderInjector) == nil

// ---------------------------------------------------------------- C16 / C13: the chain in front of authentication
//@ func buildPreAuthChain
//@ prop C16 C01
//@ at call NewScope assert[forwarded-header-trust-is-the-reverse-proxy-option] arg(NewScope, 0) == opts.ReverseProxy
//@     && arg(NewScope, 1) == opts.Logging.RequestIDHeader
//@ at call New assert[the-scope-comes-first] len(arg(New, 0)) == 1 && arg(New, 0)[0] == ret(NewScope)
//@ prop C16 C13
//@ at call NewReadynessCheck assert[readiness-asks-this-proxys-store] arg(NewReadynessCheck, 1) == sessionStore && arg(NewReadynessCheck, 0) == opts.ReadyPath
//@ at call NewRedirectToHTTPS assert[https-redirect-only-when-forced] opts.ForceHTTPS
//@ ensures[https-redirect-whenever-forced] opts.ForceHTTPS && ret1 == nil ==> called(NewRedirectToHTTPS)

// ---------------------------------------------------------------- C20 / C08: the e-mail list is loaded once and reloaded from the same file
//@ stable UserMap.usersFile
//@ prop C20 C08
//@ scan[users-file-name-written-by-the-constructor-only] field-writers UserMap.usersFile main.NewUserMap
//@ func NewUserMap
//@ prop C20 C08
//@ at call WatchFileForUpdates assert[watches-the-configured-file] arg(WatchFileForUpdates, 0) == usersFile && arg(WatchFileForUpdates, 1) == done
//@ ensures[a-configured-file-is-watched-and-loaded] usersFile != "" ==> called(WatchFileForUpdates) && called(LoadAuthenticatedEmailsFile)
//@     && recv(LoadAuthenticatedEmailsFile) == result
//@ ensures[the-map-reads-that-file] result != nil && result.usersFile == usersFile

//@ func NewUserMap$1
//@ prop C20 C08
//@ ensures[an-update-reloads-this-map] called(LoadAuthenticatedEmailsFile) && recv(LoadAuthenticatedEmailsFile) == um

// ------------------------------------------------------------------ C05 / C04 / C07 / C01: start-up: how the configuration reaches validation
// The structured ("alpha") file is decoded into an EMPTY object — a key the operator left out means the zero value (nonce check
// on, no extra audiences, no headers), never a value left over from the core defaults — and then replaces the core sections.
//@ func loadAlphaOptions
//@ prop C05 C04 C07 C01
//@ at call LoadYAML assert[decoded-into-an-empty-alpha-object] arg(LoadYAML, 1) == alphaOpts && arg(LoadYAML, 0) == alphaConfig
//@     && len(alphaOpts.Providers) == 0 && len(alphaOpts.InjectRequestHeaders) == 0 && len(alphaOpts.InjectResponseHeaders) == 0
//@     && len(alphaOpts.UpstreamConfig.Upstreams) == 0
//@ at call MergeInto assert[merged-into-the-core-options-after-a-successful-decode] recv(MergeInto) == alphaOpts && arg(MergeInto, 1) == ret0(loadOptions)
//@     && ret1(loadOptions) == nil && ret(LoadYAML) == nil
//@ ensures[undecodable-configuration-is-an-error] (called(LoadYAML) && ret(LoadYAML) != nil) || ret1(loadOptions) != nil ==> ret1 != nil && ret0 == nil
//@ ensures[the-merged-core-options-are-returned] ret1 == nil ==> called(MergeInto) && ret0 == ret0(loadOptions)


// ------------------------------------------------------------------ C16 / C06: the OAuth redirect URI is the configured one, or built from what the request utilities
// (which honour reverse-proxy mode) report for this request
//@ func (*OAuthProxy).getOAuthRedirectURI
//@ safety
//@ prop C16 C06
//@ ensures[a-configured-absolute-or-relative-redirect-url-wins] p.relativeRedirectURL || p.redirectURL.Host != "" ==> !called(GetRequestHost)
//@     && !called(GetRequestProto)
//@ at call GetRequestHost assert[host-as-the-request-utilities-see-this-request] arg(GetRequestHost, 0) == req
//@ at call GetRequestProto assert[scheme-as-the-request-utilities-see-this-request] arg(GetRequestProto, 0) == req

// ------------------------------------------------------------------ C05 / C03: the start endpoint is the login start for this request
//@ func (*OAuthProxy).OAuthStart
//@ prop C05 C03
//@ at call doOAuthStart assert[login-started-for-this-request] arg(doOAuthStart, 1) == rw && arg(doOAuthStart, 2) == req
//@ ensures[always-starts-a-login] called(doOAuthStart)

// ------------------------------------------------------------------ C14 / C19: the optional backend logout call never crashes the sign-out
//@ func (*OAuthProxy).backendLogout
//@ safety
//@ prop C14 C19 C11
//@ at call http.Get assert[only-for-an-authenticated-session] ret1(getAuthenticatedSession) == nil && ret0(getAuthenticatedSession) != nil
