//go:build verif

package header

// Contracts for gcv (comment-only file; compiled only with -tags verif, and then to nothing).

//@ stable injector.* injectorFunc.*
//@ nonnil injectorFunc.injectFunc injector.valueInjectors

// ------------------------------------------------------------------ C07: what an injector may put into a header map
// Each claim injector touches only the configured header name and only adds values taken from the session's claim.
//@ func newClaimInjector$3
//@ safety
//@ prop C07
//@ modifies header.hdr
//@ at call Add assert[plain-claim-under-configured-name] arg(Add, 1) == name && arg(Add, 2) == claim && claim != ""
//@     && claim == claimValues[rangeindex + 1] && claimValues == ret(GetClaim) && arg(GetClaim, 0) == session
//@     && arg(GetClaim, 1) == source.Claim && arg(Add, 0) == header

//@ func newClaimInjector$2
//@ safety
//@ prop C07
//@ modifies header.hdr
//@ at call Add assert[prefixed-claim-under-configured-name] arg(Add, 1) == name && arg(Add, 2) == source.Prefix + claim && claim != ""
//@     && claim == claimValues[rangeindex + 1] && claimValues == ret(GetClaim) && arg(GetClaim, 0) == session
//@     && arg(GetClaim, 1) == source.Claim && arg(Add, 0) == header

//@ func newClaimInjector$1
//@ safety
//@ prop C07
//@ modifies header.hdr
//@ at call Add assert[basic-auth-of-claim-under-configured-name] arg(Add, 1) == name && claim != ""
//@     && arg(Add, 2) == "Basic " + b64enc(base64.StdEncoding, claim + ":" + bytes(password))
//@     && claim == claimValues[rangeindex + 1] && claimValues == ret(GetClaim) && arg(GetClaim, 0) == session
//@     && arg(GetClaim, 1) == source.Claim && arg(Add, 0) == header

//@ func newSecretInjector$1
//@ safety
//@ prop C07
//@ modifies header.hdr
//@ at call Add assert[configured-secret-under-configured-name] arg(Add, 1) == name && arg(Add, 2) == bytes(value) && arg(Add, 0) == header

//@ func (*injectorFunc).inject
//@ prop C07
//@ ensures[runs-the-configured-function] called(injectFunc) && arg(injectFunc, 0) == header && arg(injectFunc, 1) == session

//@ func (injector).Inject
//@ safety
//@ prop C07
//@ at call inject assert[each-value-injector-on-this-header-and-session] arg(inject, 0) == header && arg(inject, 1) == session
//@     && recv(inject) == i.valueInjectors[rangeindex + 1]

// every injector implementation only writes the header map it is given (verified above for each closure)
//@ iface valueInjector.inject
//@ prop C07
//@ modifies a0.hdr

//@ iface Injector.Inject
//@ prop C07
//@ modifies a0.hdr

//@ func newInjectorFunc
//@ nomod
//@ fresh
//@ prop C19 C07
//@ ensures[nonnil:injector-wraps-the-given-function] result != nil && typeis(result, "*injectorFunc") && as(result, "*injectorFunc").injectFunc == injectFunc
//@ prop C19
//@ scan[nonnil:injector-funcs-allocated-by-the-constructor] alloc-of pkg/header.injectorFunc pkg/header.newInjectorFunc

// ------------------------------------------------------------------ C19 / C07: `nonnil injector.valueInjectors` (no nil element) is established by the
// constructor — every value injector it appends was built without error — and nothing else allocates an injector or touches the slice
//@ func NewInjector
//@ safety
//@ prop C19 C07
//@ loop 0 invariant[only-built-injectors-so-far] rangeindex >= -1 && forall k int :: 0 <= k && k < len(injectors) ==> injectors[k] != nil
//@ loop 1 invariant[only-built-injectors-so-far] rangeindex >= -1 && forall k int :: 0 <= k && k < len(injectors) ==> injectors[k] != nil
//@ ensures[nonnil:every-value-injector-was-built] ret1 == nil ==> typeis(ret0, "*injector")
//@     && forall k int :: 0 <= k && k < len(as(ret0, "*injector").valueInjectors) ==> as(ret0, "*injector").valueInjectors[k] != nil
//@ ensures[a-value-that-cannot-be-built-is-an-error] called(newValueinjector) && ret1(newValueinjector) != nil ==> ret1 != nil && ret0 == nil

//@ func newValueinjector
//@ safety
//@ nomod
//@ prop C19 C07
//@ ensures[an-injector-or-an-error] (ret1 == nil ==> ret0 != nil) && (ret1 != nil ==> ret0 == nil)
//@ ensures[exactly-one-source-per-value] (value.SecretSource == nil) == (value.ClaimSource == nil) ==> ret1 != nil

//@ func newSecretInjector
//@ nomod
//@ prop C19 C07
//@ ensures[an-injector-or-an-error] (ret1 == nil ==> ret0 != nil) && (ret1 != nil ==> ret0 == nil)

//@ func newClaimInjector
//@ nomod
//@ prop C19 C07
//@ ensures[an-injector-or-an-error] (ret1 == nil ==> ret0 != nil) && (ret1 != nil ==> ret0 == nil)

//@ prop C19
//@ scan[nonnil:injectors-allocated-by-the-constructor] alloc-of pkg/header.injector pkg/header.NewInjector
//@ scan[nonnil:value-injectors-frozen-after-construction] slice-field-frozen injector.valueInjectors pkg/header.NewInjector

