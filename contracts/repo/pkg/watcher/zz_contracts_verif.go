//go:build verif

package watcher

// Contracts for gcv (comment-only file; compiled only with -tags verif, and then to nothing).

// ------------------------------------------------------------------ C20: a reload is triggered by events on the configured file
// (what the contracts can say about the watcher: which path is watched and when the reload action runs; the timing of
// file-system events and the goroutine's scheduling are outside the technique)
//@ func WatchFileForUpdates
//@ prop C20 C08
//@ at call Add assert[watches-the-configured-path-as-cleaned] arg(Add, 1) == filepath.Clean(filename)
//@ ensures[a-watch-that-could-not-be-set-up-is-an-error] (called(Add) && ret(Add) != nil ==> ret0 != nil) && (ret0 == nil ==> called(Add) && ret(Add) == nil)

//@ func WatchFileForUpdates$1
//@ prop C20 C08
//@ at call filterEvent assert[events-are-filtered-against-the-watched-path-and-run-the-given-action] arg(filterEvent, 2) == filename
//@     && arg(filterEvent, 3) == action && arg(filterEvent, 0) == watcher

//@ func filterEvent
//@ prop C20 C08
// (the switch in filterEvent compares booleans: an event for another name without the Remove bit also takes the first
// case and reloads; a spurious reload is harmless for C20, so no clause restricts when the action may run)
//@ ensures[write-or-create-of-the-watched-file-reloads] filepath.Clean(event.Name) == filename && !called(WaitForReplacement)
//@     && called(Printf) ==> called(action)
//@ ensures[a-removed-file-is-waited-for-and-then-reloaded] called(WaitForReplacement) ==> called(action#0) && arg(WaitForReplacement, 0) == filename
//@     && arg(WaitForReplacement, 2) == watcher

//@ func WaitForReplacement
//@ prop C20 C08
//@ at call Add assert[re-watches-the-same-path] arg(Add, 1) == filename && arg(Add, 0) == watcher && ret1(os.Stat) == nil && arg(os.Stat, 0) == filename
//@ ensures[returns-only-after-the-watch-is-re-established] called(Add) && ret(Add) == nil
