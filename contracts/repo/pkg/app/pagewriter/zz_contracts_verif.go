//go:build verif

package pagewriter

// Contracts for gcv (comment-only file; compiled only with -tags verif, and then to nothing).

// ------------------------------------------------------------------ C19: the proxy's page writer exists whenever construction succeeds
//@ func NewWriter
//@ shallow
//@ prop C19 C01
//@ ensures[nonnil:a-writer-or-an-error] ret1 == nil ==> ret0 != nil
//@ ensures[error-means-no-writer] ret1 != nil ==> ret0 == nil
