//go:build verif

package redirect

// Contracts for gcv (comment-only file; compiled only with -tags verif, and then to nothing).

//@ stable validator.* appDirector.*
//@ nonnil appDirector.validator

// relOK(r): what the property allows for a relative redirect, written from the statement: a path on this host
// that no browser re-interprets as scheme-relative. The pattern is the statement's reading; the code's own
// pattern is read from the MustCompile literal in validator.go on every run.
//@ define relOK(r string) bool = HasPrefix(r, "/") && !HasPrefix(r, "//") && !matches(r, `[/\\](?:[\s\v]*|\.{1,2})[/\\]`)

// browserOffOrigin(r): WHATWG URL parsing of a Location value against an http(s) base: leading C0-control/space is
// stripped, tab/CR/LF are removed anywhere, backslash counts as slash; two (back)slashes then start an authority.
//@ define browserOffOrigin(r string) bool = matches(r, `^[\x00-\x20]*[/\\][\t\r\n]*[/\\]`)

//@ prop C06
//@ lemma[RelSafe] forall r string :: relOK(r) ==> !browserOffOrigin(r)
//@ lemma[RelSafe-dotsegments] forall r string :: relOK(r) ==> !matches(r, `^/(\.|\.\.)[/\\]`)

//@ func (*validator).IsValidRedirect
//@ safety
//@ nomod
//@ prop C06
//@ ensures[only-safe-relative-or-whitelisted-absolute] result ==> redirect != "" && (relOK(redirect)
//@     || ((HasPrefix(redirect, "http://") || HasPrefix(redirect, "https://")) && called(url.Parse) && ret1(url.Parse) == nil
//@         && arg(url.Parse, 0) == redirect && ret(IsEndpointAllowed) && arg(IsEndpointAllowed, 0) == ret0(url.Parse)
//@         && arg(IsEndpointAllowed, 1) == v.allowedDomains))
//@ ensures[plain-same-site-path-accepted] relOK(redirect) ==> result

//@ func (*appDirector).GetRedirect
//@ prop C06
//@ ensures[root-or-validated] ret1 == nil ==> ret0 == "/" || (called(IsValidRedirect) && ret(IsValidRedirect) && arg(IsValidRedirect, 0) == ret0)
//@ ensures[error-gives-nothing] ret1 != nil ==> ret0 == ""

//@ func (*appDirector).validateRedirect
//@ nomod
//@ prop C06
//@ ensures[empty-or-validated] result == "" || (result == redirect && ret(IsValidRedirect) && arg(IsValidRedirect, 0) == redirect)

//@ func (*appDirector).getXForwardedHeadersRedirect
//@ nomod
//@ prop C06 C16
//@ ensures[only-for-forwarded-requests] !ret(IsForwardedRequest) ==> result == ""
//@ ensures[validated] result == "" || result == ret(validateRedirect)

// the validator behind the interface is (*validator) above: read-only
//@ iface Validator.IsValidRedirect
//@ prop C06
//@ nomod

// ------------------------------------------------------------------ C06 / C19: constructors
//@ func NewValidator
//@ prop C06 C19
//@ fresh
//@ ensures[validator-over-the-given-domains] result != nil && typeis(result, "*validator") && as(result, "*validator").allowedDomains == allowedDomains

//@ func NewAppDirector
//@ prop C06 C19
//@ fresh
//@ ensures[director-with-the-given-validator-and-a-prefix-ending-in-a-slash] result != nil && typeis(result, "*appDirector")
//@     && as(result, "*appDirector").validator == opts.Validator && HasSuffix(as(result, "*appDirector").proxyPrefix, "/")
//@     && HasPrefix(as(result, "*appDirector").proxyPrefix, opts.ProxyPrefix)

// ------------------------------------------------------------------ C06: where a candidate redirect is read from, and that it comes back byte for byte or not at all
//@ func (*appDirector).getRdQuerystringRedirect
//@ safety
//@ nomod
//@ prop C06
//@ ensures[the-rd-parameter-validated-unchanged] result == ret(validateRedirect) && arg(validateRedirect, 1) == ret(Get) && arg(Get, 0) == req.Form
//@     && arg(Get, 1) == "rd"

//@ func (*appDirector).getXAuthRequestRedirect
//@ safety
//@ nomod
//@ prop C06
//@ ensures[the-redirect-header-validated-unchanged] result == ret(validateRedirect) && arg(validateRedirect, 1) == ret(Get) && arg(Get, 0) == req.Header
//@     && arg(Get, 1) == "X-Auth-Request-Redirect"

//@ func (*appDirector).getURIRedirect
//@ nomod
//@ prop C06 C16
//@ ensures[the-requested-uri-unchanged-or-root] result == "/" || (ret(validateRedirect) != "" && result == ret(validateRedirect))
//@     || (ret(validateRedirect) == "" && result == ret(RequestURI) && recv(RequestURI) == req.URL)
//@ ensures[the-uri-the-request-utilities-report-is-what-gets-validated] arg(validateRedirect, 1) == ret(GetRequestURI) && arg(GetRequestURI, 0) == req
