//go:build verif

package ip

// Contracts for gcv (comment-only file; compiled only with -tags verif, and then to nothing).

// ------------------------------------------------------------------ C15 / C16: which address a trusted-IP decision looks at
//@ func GetClientIP
//@ nilable p
//@ nomod
//@ prop C15 C16
//@ ensures[no-parser-means-socket-address-only] p == nil ==> called(getRemoteIP) && ret0 == ret0(getRemoteIP) && ret1 == ret1(getRemoteIP)
//@     && arg(getRemoteIP, 0) == req && !called(GetRealClientIP)
//@ ensures[parser-reads-the-request-headers] p != nil ==> called(GetRealClientIP) && ret0 == ret0(GetRealClientIP) && ret1 == ret1(GetRealClientIP)
//@     && arg(GetRealClientIP, 0) == req.Header && !called(getRemoteIP)

//@ func getRemoteIP
//@ safety
//@ nomod
//@ prop C15 C16
//@ ensures[from-remote-addr-only] arg(net.SplitHostPort, 0) == req.RemoteAddr
//@ ensures[unparsable-is-error] ret1 == nil ==> ret0 != nil && ret2(net.SplitHostPort) == nil && ret0 == ret(net.ParseIP)
//@     && arg(net.ParseIP, 0) == ret0(net.SplitHostPort)
//@ ensures[error-means-no-address] ret1 != nil ==> ret0 == nil

//@ func (xForwardedForClientIPParser).GetRealClientIP
//@ safety
//@ nomod
//@ prop C15 C16
//@ ensures[only-the-one-configured-header] arg(Get, 1) == p.header && arg(Get, 0) == h
//@ ensures[absent-header-no-address] ret(Get) == "" ==> ret0 == nil && ret1 == nil
//@ ensures[unparsable-is-error] ret(Get) != "" && ret1 == nil ==> ret0 != nil && ret0 == ret(net.ParseIP)

// the interface: a parser reads header values only
//@ iface github.com/oauth2-proxy/oauth2-proxy/v7/pkg/apis/ip.RealClientIPParser.GetRealClientIP
//@ prop C15 C16
//@ nomod

// ------------------------------------------------------------------ C15: parsing a configured network reads its argument only
// and a bare address stands for exactly that host: the full-length mask of its family, nothing wider; a CIDR entry is taken as
// the library parsed it, and only when it names the network address itself (no host bits)
//@ func ParseIPNet
//@ safety
//@ nomod
//@ prop C15 C01
//@ ensures[bare-address-is-parsed-as-an-address] !strings.ContainsRune(s, '/') ==> !called(net.ParseCIDR)
//@     && (result != nil ==> called(net.ParseIP) && arg(net.ParseIP, 0) == s && ret(net.ParseIP) != nil && result.IP == ret(net.ParseIP))
//@ ensures[bare-address-gets-the-host-mask-of-its-family] !strings.ContainsRune(s, '/') && result != nil ==>
//@     (ret(To4) != nil && called(CIDRMask#0) && result.Mask == ret(CIDRMask#0) && arg(CIDRMask#0, 0) == 32 && arg(CIDRMask#0, 1) == 32)
//@     || (ret(To4) == nil && called(CIDRMask#1) && result.Mask == ret(CIDRMask#1) && arg(CIDRMask#1, 0) == 128 && arg(CIDRMask#1, 1) == 128)
//@ ensures[cidr-entry-is-the-parsed-network-without-host-bits] strings.ContainsRune(s, '/') && result != nil ==> called(net.ParseCIDR)
//@     && arg(net.ParseCIDR, 0) == s && ret2(net.ParseCIDR) == nil && result == ret1(net.ParseCIDR) && called(Equal) && ret(Equal)
//@     && arg(Equal, 1) == ret0(net.ParseCIDR)

// the set only ever changes its own tables (slices behind the two table pointers, their elements and hash sets)
//@ func (*NetSet).AddIPNet
//@ prop C15
//@ modifies cells elems maps
//@ ensures[frame-only] true

//@ func (*NetSet).Has
//@ prop C15
//@ nomod
//@ ensures[frame-only] true

//@ func NewNetSet
//@ prop C15
//@ fresh
//@ ensures[a-new-empty-set] result != nil
