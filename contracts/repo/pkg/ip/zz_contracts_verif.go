//go:build verif

package ip

// Contracts for gcv (comment-only file; compiled only with -tags verif, and then to nothing).

// ------------------------------------------------------------------ C15 / C16: which address a trusted-IP decision looks at
//@ func GetClientIP
//@ nilable p
//@ nomod
//@ prop C15 C16
//@ ensures[no-parser-means-socket-address-only] p == nil ==> called(getRemoteIP) && ret0 == ret0(getRemoteIP) && ret1 == ret1(getRemoteIP)
//@     && arg(getRemoteIP, 0) == req && !called(GetRealClientIP)
//@ ensures[parser-reads-the-request-headers] p != nil ==> called(GetRealClientIP) && ret0 == ret0(GetRealClientIP) && ret1 == ret1(GetRealClientIP)
//@     && arg(GetRealClientIP, 0) == req.Header && !called(getRemoteIP)

//@ func getRemoteIP
//@ safety
//@ nomod
//@ prop C15 C16
//@ ensures[from-remote-addr-only] arg(net.SplitHostPort, 0) == req.RemoteAddr
//@ ensures[unparsable-is-error] ret1 == nil ==> ret0 != nil && ret2(net.SplitHostPort) == nil && ret0 == ret(net.ParseIP)
//@     && arg(net.ParseIP, 0) == ret0(net.SplitHostPort)
//@ ensures[error-means-no-address] ret1 != nil ==> ret0 == nil

//@ func (xForwardedForClientIPParser).GetRealClientIP
//@ safety
//@ nomod
//@ prop C15 C16
//@ ensures[only-the-one-configured-header] arg(Get, 1) == p.header && arg(Get, 0) == h
//@ ensures[absent-header-no-address] ret(Get) == "" ==> ret0 == nil && ret1 == nil
//@ ensures[unparsable-is-error] ret(Get) != "" && ret1 == nil ==> ret0 != nil && ret0 == ret(net.ParseIP)

// the interface: a parser reads header values only
//@ iface github.com/oauth2-proxy/oauth2-proxy/v7/pkg/apis/ip.RealClientIPParser.GetRealClientIP
//@ prop C15 C16
//@ nomod

// ------------------------------------------------------------------ C15: parsing a configured network reads its argument only
//@ func ParseIPNet
//@ nomod
//@ prop C15
//@ ensures[a-network-or-nil] true

// the set only ever changes its own tables (slices behind the two table pointers, their elements and hash sets)
//@ func (*NetSet).AddIPNet
//@ prop C15
//@ modifies cells elems maps
//@ ensures[frame-only] true

//@ func (*NetSet).Has
//@ prop C15
//@ nomod
//@ ensures[frame-only] true

//@ func NewNetSet
//@ prop C15
//@ fresh
//@ ensures[a-new-empty-set] result != nil
