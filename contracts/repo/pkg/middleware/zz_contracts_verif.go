//go:build verif

package middleware

// Contracts for gcv (comment-only file; compiled only with -tags verif, and then to nothing).

//@ stable storedSessionLoader.*
//@ nonnil storedSessionLoader.store storedSessionLoader.sessionRefresher storedSessionLoader.sessionValidator
//@ stable jwtSessionLoader.*

// ------------------------------------------------------------------ C01: the three session loaders
// scope.Session is written only by these closures (scan in pkg/apis/middleware), and only with the
// result of a successful credential check.

//@ func (*storedSessionLoader).loadSession$1
//@ prop C01 C13
//@ at call ServeHTTP#0 assert[keeps-earlier-session] scope.Session == old(scope.Session) && scope.Session != nil
//@ at call ServeHTTP#1 assert[session-is-validated-load] scope.Session == ret0(getValidatedSession)
//@ ensures[next-always-called] called(ServeHTTP)
//@ prop C12 C13
//@ ensures[failed-load-clears] called(getValidatedSession) && ret1(getValidatedSession) != nil
//@     && !errors.Is(ret1(getValidatedSession), http.ErrNoCookie) ==> called(Clear)

//@ func (*storedSessionLoader).getValidatedSession
//@ prop C01 C12 C13
//@ ensures[error-means-no-session] ret1 != nil ==> ret0 == nil
//@ ensures[session-only-from-store-and-refresh-check] ret0 != nil ==> ret0 == ret0(Load) && ret1(Load) == nil
//@     && called(refreshSessionIfNeeded) && ret(refreshSessionIfNeeded) == nil && arg(refreshSessionIfNeeded, 3) == ret0

//@ func (*jwtSessionLoader).loadSession$1
//@ prop C01
//@ at call ServeHTTP#0 assert[keeps-earlier-session] scope.Session == old(scope.Session) && scope.Session != nil
//@ at call ServeHTTP#1 assert[session-is-verified-token] scope.Session == ret0(getJwtSession)
//@ ensures[next-always-called] called(ServeHTTP)

//@ func (*jwtSessionLoader).getJwtSession
//@ prop C01 C04
//@ ensures[session-only-from-loader-success] ret0 != nil ==> called(loader) && ret1(loader) == nil && ret0 == ret0(loader)
//@     && arg(loader, 1) == ret0(findTokenFromHeader) && ret1(findTokenFromHeader) == nil

//@ func loadBasicAuthSession$2
//@ prop C01
//@ at call ServeHTTP#0 assert[keeps-earlier-session] scope.Session == old(scope.Session) && scope.Session != nil
//@ at call ServeHTTP#1 assert[session-is-basic-auth] scope.Session == ret0(getSession)
//@ ensures[next-always-called] called(ServeHTTP)

//@ func getBasicSession
//@ prop C01
//@ ensures[only-validated-credentials] ret0 != nil ==> called(Validate) && ret(Validate)
//@     && arg(Validate, 0) == ret0(findBasicCredentialsFromHeader) && arg(Validate, 1) == ret1(findBasicCredentialsFromHeader)
//@     && ret2(findBasicCredentialsFromHeader) == nil
//@ ensures[user-is-validated-user] ret0 != nil ==> ret0.User == arg(Validate, 0) && ret0.Email == ""
