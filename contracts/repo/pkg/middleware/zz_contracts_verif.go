//go:build verif

package middleware

// Contracts for gcv (comment-only file; compiled only with -tags verif, and then to nothing).

//@ stable storedSessionLoader.*
//@ nonnil storedSessionLoader.store storedSessionLoader.sessionRefresher storedSessionLoader.sessionValidator
//@ stable jwtSessionLoader.*

// ------------------------------------------------------------------ C01: the three session loaders
// scope.Session is written only by these closures (scan in pkg/apis/middleware), and only with the
// result of a successful credential check.

//@ func (*storedSessionLoader).loadSession$1
//@ prop C01 C13
//@ at call ServeHTTP#0 assert[keeps-earlier-session] scope.Session == old(scope.Session) && scope.Session != nil
//@ at call ServeHTTP#1 assert[session-is-validated-load] scope.Session == ret0(getValidatedSession)
//@ ensures[next-always-called] called(ServeHTTP)
//@ prop C12 C13
//@ ensures[failed-load-clears] called(getValidatedSession) && ret1(getValidatedSession) != nil
//@     && !errors.Is(ret1(getValidatedSession), http.ErrNoCookie) ==> called(Clear)

//@ func (*storedSessionLoader).getValidatedSession
//@ prop C01 C12 C13
//@ ensures[error-means-no-session] ret1 != nil ==> ret0 == nil
//@ ensures[session-only-from-store-and-refresh-check] ret0 != nil ==> ret0 == ret0(Load) && ret1(Load) == nil
//@     && called(refreshSessionIfNeeded) && ret(refreshSessionIfNeeded) == nil && arg(refreshSessionIfNeeded, 3) == ret0

//@ func (*jwtSessionLoader).loadSession$1
//@ prop C01
//@ at call ServeHTTP#0 assert[keeps-earlier-session] scope.Session == old(scope.Session) && scope.Session != nil
//@ at call ServeHTTP#1 assert[session-is-verified-token] scope.Session == ret0(getJwtSession)
//@ ensures[next-always-called] called(ServeHTTP)

//@ func (*jwtSessionLoader).getJwtSession
//@ prop C01 C04
//@ ensures[session-only-from-loader-success] ret0 != nil ==> called(loader) && ret1(loader) == nil && ret0 == ret0(loader)
//@     && arg(loader, 1) == ret0(findTokenFromHeader) && ret1(findTokenFromHeader) == nil

//@ func loadBasicAuthSession$2
//@ prop C01
//@ at call ServeHTTP#0 assert[keeps-earlier-session] scope.Session == old(scope.Session) && scope.Session != nil
//@ at call ServeHTTP#1 assert[session-is-basic-auth] scope.Session == ret0(getSession)
//@ ensures[next-always-called] called(ServeHTTP)

//@ func getBasicSession
//@ prop C01
//@ ensures[only-validated-credentials] ret0 != nil ==> called(Validate) && ret(Validate)
//@     && arg(Validate, 0) == ret0(findBasicCredentialsFromHeader) && arg(Validate, 1) == ret1(findBasicCredentialsFromHeader)
//@     && ret2(findBasicCredentialsFromHeader) == nil
//@ ensures[user-is-validated-user] ret0 != nil ==> ret0.User == arg(Validate, 0) && ret0.Email == ""

// C12's proviso is "the provider answers within the refresh lock's duration": then the lock is free again before a waiting
// request gives up, which needs the waiters' patience to exceed the lock's lifetime (and a polling period well inside it)
//@ prop C12
//@ lemma[a-waiting-request-outlasts-the-refresh-lock] sessionRefreshObtainTimeout > sessionRefreshLockDuration
//@     && sessionRefreshRetryPeriod > 0 && sessionRefreshLockDuration + 2 * sessionRefreshRetryPeriod < sessionRefreshObtainTimeout

// ------------------------------------------------------------------ C12 / C13 / C09: refresh and re-validation
//@ func needsRefresh
//@ prop C12
//@ ensures[threshold] result <==> refreshPeriod > 0 && ret(Age) > refreshPeriod

//@ func (*storedSessionLoader).validateSession
//@ prop C12
//@ ensures[valid-iff-unexpired-and-provider-validates] ret0 == nil <==> !ret(IsExpired) && called(sessionValidator) && ret(sessionValidator)
//@ at call sessionValidator assert[validates-this-session] arg(sessionValidator, 1) == session

//@ func (*storedSessionLoader).refreshSession
//@ prop C12 C18 C10 C16
//@ at call Save assert[saved-on-the-clients-own-request-and-response] arg(Save, 0) == rw && arg(Save, 1) == req && recv(Save) == s.store
//@ at call sessionRefresher assert[refreshed-in-the-requests-context] arg(sessionRefresher, 0) == ret(Context) && recv(Context) == req
//@     && arg(sessionRefresher, 1) == session
//@ prop C12 C09 C13 C14
//@ at call Save assert[restamped-before-save] called(CreatedAtNow) && arg(CreatedAtNow, 0) == session && arg(Save, 2) == session
//@     && (ret0(sessionRefresher) || errors.Is(ret1(sessionRefresher), providers.ErrNotImplemented))
//@ ensures[refresher-error-extends-nothing] ret1(sessionRefresher) != nil && !errors.Is(ret1(sessionRefresher), providers.ErrNotImplemented)
//@     ==> ret0 != nil && !called(Save) && !called(CreatedAtNow)
//@ ensures[not-refreshed-not-restamped] !ret0(sessionRefresher) && !errors.Is(ret1(sessionRefresher), providers.ErrNotImplemented)
//@     ==> !called(Save) && !called(CreatedAtNow)
//@ ensures[save-error-propagates] called(Save) && ret(Save) != nil ==> ret0 != nil
//@ ensures[refreshed-is-saved] ret0 == nil && ret0(sessionRefresher) ==> called(Save) && ret(Save) == nil

//@ func (*storedSessionLoader).refreshSessionIfNeeded
//@ prop C12 C13
//@ at call refreshSession assert[refresh-only-under-lock-after-reload-and-recheck] lockObtained
//@     && called(Load) && ret1(Load) == nil && ret0(Load) != nil && ret(needsRefresh#1) && arg(refreshSession, 3) == session
//@ at call needsRefresh#1 assert[recheck-on-the-callers-session-after-copying-the-reloaded-state] arg(needsRefresh#1, 1) == session
//@     && ret1(Load) == nil && ret0(Load) != nil && session.AccessToken == ret0(Load).AccessToken
//@     && session.RefreshToken == ret0(Load).RefreshToken && session.IDToken == ret0(Load).IDToken
//@     && session.CreatedAt == ret0(Load).CreatedAt && session.ExpiresOn == ret0(Load).ExpiresOn
//@     && session.Email == ret0(Load).Email && session.User == ret0(Load).User
//@ at call needsRefresh#0 assert[first-check-on-the-callers-session] arg(needsRefresh#0, 1) == session
//@ prop C12 C11 C13
//@ at call ObtainLock assert[the-lock-is-held-for-the-refresh-lock-duration] arg(ObtainLock, 2) == sessionRefreshLockDuration && recv(ObtainLock) == session
//@ at call Sleep assert[waiters-poll-at-the-retry-period] arg(Sleep, 0) == sessionRefreshRetryPeriod
//@ at call WithTimeout assert[waiters-give-up-after-the-obtain-timeout] arg(WithTimeout, 1) == sessionRefreshObtainTimeout
//@ ensures[stale-never-honoured-unchecked] ret0 == nil ==> !ret(needsRefresh#0)
//@     || (called(Load) && ret1(Load) == nil && ret0(Load) != nil && !ret(needsRefresh#1))
//@     || (called(validateSession) && ret(validateSession) == nil && arg(validateSession, 2) == session)
//@ ensures[reload-failure-is-error] called(Load) && (ret1(Load) != nil || ret0(Load) == nil) ==> ret0 != nil
//@ ensures[validation-follows-refresh-attempt] called(refreshSession) ==> called(validateSession) && ret0 == ret(validateSession)

// ------------------------------------------------------------------ C07: strip, then inject, then forward
//@ func stripHeaders$1
//@ prop C07
//@ loop 0 invariant[earlier-names-absent] rangeindex >= -1 && forall j int :: 0 <= j && j <= rangeindex ==> mapget(req.Header.hdr, canon(headers[j])) == ""
//@ at call ServeHTTP assert[every-configured-name-is-absent-whatever-the-client-sent] forall j int :: 0 <= j && j < len(headers) ==>
//@     mapget(req.Header.hdr, canon(headers[j])) == ""
//@ ensures[next-always-called] called(ServeHTTP)

//@ func injectRequestHeaders$1
//@ prop C07
//@ at call Inject assert[request-headers-from-the-scope-session] arg(Inject, 0) == req.Header && arg(Inject, 1) == scope.Session
//@     && scope == ret(GetRequestScope) && arg(GetRequestScope, 0) == req
//@ at call ServeHTTP assert[forward-after-inject-and-flatten] called(Inject) && called(flattenHeaders) && arg(flattenHeaders, 0) == req.Header
//@     && arg(ServeHTTP, 1) == req

//@ func injectResponseHeaders$1
//@ prop C07
//@ at call Inject assert[response-headers-from-the-scope-session] arg(Inject, 0) == ret(Header#0) && recv(Header#0) == rw
//@     && arg(Inject, 1) == scope.Session && scope == ret(GetRequestScope) && arg(GetRequestScope, 0) == req
//@ at call ServeHTTP assert[forward-after-inject] called(Inject)

//@ func NewRequestHeaderInjector
//@ prop C07
//@ at call alice.New assert[strip-before-inject] arg(alice.New, 0)[0] == ret(newStripHeaders) && arg(alice.New, 0)[1] == ret0(newRequestHeaderInjector)
//@     && len(arg(alice.New, 0)) == 2
//@ ensures[stripper-present-whenever-something-to-strip] ret1 == nil && ret(newStripHeaders) != nil ==> called(alice.New)

//@ func newStripHeaders
//@ safety
//@ prop C07
//@ loop 0 invariant[non-preserved-names-collected] rangeindex >= -1 && len(headersToStrip) >= 0
//@     && (forall j int :: 0 <= j && j <= rangeindex && !headers[j].PreserveRequestValue ==>
//@         exists k int :: 0 <= k && k < len(headersToStrip) && headersToStrip[k] == headers[j].Name)
//@ ensures[nil-only-if-nothing-to-strip] result == nil ==> forall j int :: 0 <= j && j < len(headers) ==> headers[j].PreserveRequestValue
//@ ensures[every-non-preserved-name-is-stripped] result != nil ==> forall j int :: 0 <= j && j < len(headers) && !headers[j].PreserveRequestValue ==>
//@     exists k int :: 0 <= k && k < len(headersToStrip) && headersToStrip[k] == headers[j].Name

//@ func newStripHeaders$1
//@ prop C07
//@ ensures[strips-the-collected-names] result == ret(stripHeaders) && arg(stripHeaders, 0) == headersToStrip && arg(stripHeaders, 1) == next

// ------------------------------------------------------------------ C13: readiness
//@ func readynessCheck$1
//@ prop C13 C17
//@ at call ServeHTTP assert[next-gets-request-and-writer-unchanged] recv(ServeHTTP) == next && arg(ServeHTTP, 0) == rw && arg(ServeHTTP, 1) == req
//@ prop C13
//@ at call WriteHeader assert[ready-only-if-store-reachable] arg(WriteHeader, 0) == 200 ==> ret(VerifyConnection) == nil
//@ ensures[unreachable-store-is-500] called(VerifyConnection) && ret(VerifyConnection) != nil ==> called(WriteHeader#0)
//@     && arg(WriteHeader#0, 0) == 500 && !called(WriteHeader#1) && !called(ServeHTTP)
//@ ensures[other-paths-pass-through] !called(VerifyConnection) ==> called(ServeHTTP)
// only a request whose path AS SENT (escaped form) is the configured path is answered here; a path that merely decodes to it
// belongs to the upstream
//@ prop C17
//@ at call VerifyConnection assert[only-the-literal-ready-path-is-answered-here] path != "" && called(EscapedPath) && ret(EscapedPath) == path
//@     && recv(EscapedPath) == req.URL

// ------------------------------------------------------------------ C01 / C16: the request scope starts without a session
//@ func NewScope$1$1
//@ prop C01 C16
//@ at call AddRequestScope assert[fresh-scope-no-session-mode-from-option] arg(AddRequestScope, 1).Session == nil
//@     && arg(AddRequestScope, 1).ReverseProxy == reverseProxy && arg(AddRequestScope, 0) == req
//@ at call ServeHTTP assert[next-gets-the-scoped-request] arg(ServeHTTP, 1) == ret(AddRequestScope)
//@ prop C17
//@ at call ServeHTTP assert[next-gets-the-writer-unchanged] recv(ServeHTTP) == next && arg(ServeHTTP, 0) == rw

//@ func genRequestID
//@ nomod

// the loader is wired with exactly the store, period, refresher and validator it was given
//@ prop C01 C12
//@ scan[stored-loader-fields-written-only-by-its-constructor] field-writers storedSessionLoader.* pkg/middleware.NewStoredSessionLoader

// ------------------------------------------------------------------ C17: middleware hands the request and the response on unchanged
//@ func requestLogger$1
//@ prop C17
//@ at call ServeHTTP assert[next-gets-the-request-and-the-wrapped-client-writer] recv(ServeHTTP) == next && arg(ServeHTTP, 1) == req
//@     && arg(ServeHTTP, 0) == responseLogger && responseLogger.ResponseWriter == rw
//@ ensures[always-passes-on] called(ServeHTTP)

//@ func (*loggingResponse).WriteHeader
//@ prop C17
//@ ensures[status-relayed-unchanged] called(WriteHeader) && arg(WriteHeader, 0) == s && recv(WriteHeader) == old(r.ResponseWriter)

//@ func (*loggingResponse).Write
//@ prop C17
//@ ensures[body-relayed-unchanged] called(Write) && arg(Write, 0) == b && recv(Write) == old(r.ResponseWriter) && ret0 == ret0(Write) && ret1 == ret1(Write)

//@ func (*loggingResponse).Flush
//@ prop C17
//@ ensures[flush-relayed-when-supported] called(Flush) ==> recv(Flush) == old(r.ResponseWriter)

//@ func (*loggingResponse).Hijack
//@ prop C17
//@ ensures[hijack-relayed-when-supported] called(Hijack) ==> recv(Hijack) == old(r.ResponseWriter) && ret0 == ret0(Hijack) && ret1 == ret1(Hijack) && ret2 == ret2(Hijack)

//@ func healthCheck$1
//@ prop C17
//@ at call ServeHTTP assert[next-gets-request-and-writer-unchanged] recv(ServeHTTP) == next && arg(ServeHTTP, 0) == rw && arg(ServeHTTP, 1) == req
//@ ensures[everything-but-health-checks-passes-on] called(ServeHTTP) <==> !ret(isHealthCheckRequest)
//@ at call isHealthCheckRequest assert[judged-on-this-request] arg(isHealthCheckRequest, 2) == req

//@ func isHealthCheckRequest
//@ safety
//@ nomod
//@ prop C17
//@ ensures[only-the-literal-ping-path-or-a-listed-agent] result <==> inmap(paths, ret(EscapedPath)) || inmap(userAgents, ret(Get))
//@ ensures[path-as-sent-and-the-user-agent-header] recv(EscapedPath) == req.URL && (called(Get) ==> arg(Get, 1) == "User-Agent" && arg(Get, 0) == req.Header)

//@ func redirectToHTTPS$1
//@ safety
//@ prop C17 C19
//@ ensures[passed-on-or-redirected-never-dropped] called(ServeHTTP) || called(http.Redirect)
//@ at call http.Redirect assert[permanent-redirect-for-this-request] arg(http.Redirect, 0) == rw && arg(http.Redirect, 1) == req && arg(http.Redirect, 3) == 308
//@ at call ServeHTTP assert[next-gets-request-and-writer-unchanged] recv(ServeHTTP) == next && arg(ServeHTTP, 0) == rw && arg(ServeHTTP, 1) == req

// ------------------------------------------------------------------ C19 / C01 / C12: the `nonnil` loader fields are established by the constructor
//@ func NewStoredSessionLoader
//@ prop C19 C01 C12
//@ ensures[nonnil:loader-fields-are-the-options] ss.store == opts.SessionStore && ss.sessionRefresher == opts.RefreshSession
//@     && ss.sessionValidator == opts.ValidateSession && ss.refreshPeriod == opts.RefreshPeriod
//@ prop C19
//@ scan[nonnil:stored-loader-allocated-by-its-constructor] alloc-of pkg/middleware.storedSessionLoader pkg/middleware.NewStoredSessionLoader

//@ nonnil jwtSessionLoader.jwtRegex
//@ func NewJwtSessionLoader
//@ safety
//@ prop C19 C04 C01
//@ ensures[nonnil:jwt-loader-fields] js.jwtRegex != nil && js.jwtRegex == reCompile(jwtRegexFormat) && js.sessionLoaders == sessionLoaders
//@ prop C19
//@ scan[nonnil:jwt-loader-allocated-by-its-constructor] alloc-of pkg/middleware.jwtSessionLoader pkg/middleware.NewJwtSessionLoader

// ------------------------------------------------------------------ C04 / C01 / C19: what is read out of an Authorization header
// "<type> <value>": exactly two space-separated fields, otherwise an error and nothing else
//@ func splitAuthHeader
//@ safety
//@ nomod
//@ prop C04 C01 C19
//@ ensures[two-fields-or-an-error] ret2 == nil ==> len(strings.Split(header, " ")) == 2 && ret0 == strings.Split(header, " ")[0]
//@     && ret1 == strings.Split(header, " ")[1]
//@ ensures[an-error-carries-nothing] ret2 != nil ==> ret0 == "" && ret1 == "" && len(strings.Split(header, " ")) != 2

// base64(user ":" password), split at the first colon
//@ func getBasicAuthCredentials
//@ safety
//@ nomod
//@ prop C04 C01 C19
//@ ensures[user-colon-password] ret2 == nil ==> b64decErr(base64.StdEncoding, token) == nil && Contains(b64dec(base64.StdEncoding, token), ":")
//@     && ret0 == b64dec(base64.StdEncoding, token)[:Index(b64dec(base64.StdEncoding, token), ":")]
//@     && ret1 == b64dec(base64.StdEncoding, token)[Index(b64dec(base64.StdEncoding, token), ":") + 1:]
//@ ensures[undecodable-or-colonless-is-an-error] b64decErr(base64.StdEncoding, token) != nil || !Contains(b64dec(base64.StdEncoding, token), ":")
//@     ==> ret2 != nil && ret0 == "" && ret1 == ""

//@ func findBasicCredentialsFromHeader
//@ safety
//@ nomod
//@ prop C01 C19
//@ ensures[credentials-only-from-a-basic-header] ret2 == nil ==> ret2(splitAuthHeader) == nil && ret0(splitAuthHeader) == "Basic"
//@     && arg(splitAuthHeader, 0) == header && ret2(getBasicAuthCredentials) == nil && arg(getBasicAuthCredentials, 0) == ret1(splitAuthHeader)
//@     && ret0 == ret0(getBasicAuthCredentials) && ret1 == ret1(getBasicAuthCredentials)
//@ ensures[an-error-carries-nothing] ret2 != nil ==> ret0 == "" && ret1 == ""

// the bearer token handed to the verifiers is the header's value when it has the shape of a JWT, or the JWT-shaped user or
// password of a basic value (user with an empty or "x-oauth-basic" password; otherwise a JWT-shaped password); nothing else
//@ func (*jwtSessionLoader).findTokenFromHeader
//@ safety
//@ nomod
//@ prop C04 C01 C19
//@ ensures[only-a-jwt-shaped-bearer-or-basic-value] ret1 == nil ==> ret2(splitAuthHeader) == nil && arg(splitAuthHeader, 0) == header
//@     && ((ret0(splitAuthHeader) == "Bearer" && ret0 == ret1(splitAuthHeader) && reMatch(j.jwtRegex, ret0))
//@         || (ret0(splitAuthHeader) == "Basic" && called(getBasicToken) && ret1(getBasicToken) == nil && ret0 == ret0(getBasicToken)
//@             && arg(getBasicToken, 1) == ret1(splitAuthHeader)))
//@ ensures[an-error-carries-nothing] ret1 != nil ==> ret0 == ""

//@ func (*jwtSessionLoader).getBasicToken
//@ safety
//@ nomod
//@ prop C04 C01 C19
//@ ensures[jwt-shaped-user-or-password] ret1 == nil ==> ret2(getBasicAuthCredentials) == nil && arg(getBasicAuthCredentials, 0) == token
//@     && reMatch(j.jwtRegex, ret0)
//@     && ((ret0 == ret0(getBasicAuthCredentials) && (ret1(getBasicAuthCredentials) == "x-oauth-basic" || ret1(getBasicAuthCredentials) == ""))
//@         || (ret0 == ret1(getBasicAuthCredentials) && !reMatch(j.jwtRegex, ret0(getBasicAuthCredentials))))
//@ ensures[an-error-carries-nothing] ret1 != nil ==> ret0 == ""

// ------------------------------------------------------------------ what a handler closure sees under a constructor parameter's name is what the caller passed
// (a wrapper slipped in between — a caching validator, a decorated store — would be invisible to the contracts of the closures)
//@ prop C01 C20 C12 C13 C19 C04 C07 C16 C17
//@ scan[constructor-parameters-reach-the-closures-as-given] params-captured-as-given pkg/middleware.* pkg/upstream.* pkg/header.* pkg/sessions/* pkg/app/* pkg/apis/middleware.* main.* pkg/cookies.* providers.* pkg/providers/* pkg/authentication/* pkg/validation.* pkg/requests.* pkg/ip.* pkg/encryption.* pkg/util.*

// the legacy prefer-email switch only copies the user name of the session the basic loader produced (possibly none)
//@ func loadBasicAuthSession$1
//@ safety
//@ prop C19 C01
//@ ensures[the-validated-basic-session-or-nothing] ret0 == ret0(getBasicSession) && ret1 == ret1(getBasicSession)
//@     && arg(getBasicSession, 0) == validator && arg(getBasicSession, 2) == req
