//go:build verif

package basic

// Contracts for gcv (comment-only file; compiled only with -tags verif, and then to nothing).

// ------------------------------------------------------------------ C20: the htpasswd map is only touched under its lock
// Discipline from which data-race freedom and old-or-new atomicity follow (Go memory model): every read of users holds
// rwm (R or W), every write holds it for writing, locks are balanced; objects that are still owned by the function that
// allocated them (createHtpasswdMap's local, passed to passShaOrBcrypt) are exempt until they are published.
//@ prop C20
//@ scan[users-guarded-by-rwm] guarded htpasswdMap.users rwm pkg/authentication/basic.passShaOrBcrypt
//@ scan[owned-map-filled-only-by-its-creator] callers passShaOrBcrypt pkg/authentication/basic.createHtpasswdMap

//@ func (*htpasswdMap).loadHTPasswdFile
//@ prop C20
//@ ensures[failed-reload-keeps-old-contents] ret0 != nil ==> !stored("htpasswdMap.users")
//@ ensures[successful-reload-publishes-the-complete-new-map] ret0 == nil ==> stored("htpasswdMap.users") && ret1(createHtpasswdMap) == nil
//@     && ret1(ReadAll) == nil
//@ at call Unlock assert[publish-under-write-lock] called(Lock)

// ------------------------------------------------------------------ C01: a basic credential "verifies" only if the stored hash matches
//@ func (*htpasswdMap).Validate
//@ prop C01 C20
//@ ensures[only-if-the-stored-hash-verifies-the-password] result ==>
//@     (called(CompareHashAndPassword) && ret(CompareHashAndPassword) == nil && bytes(arg(CompareHashAndPassword, 1)) == password)
//@     || (called(EncodeToString) && bytes(arg(EncodeToString, 1)) == hsum(1, "", password))

// ------------------------------------------------------------------ C20: the htpasswd file is loaded once and reloaded from the same path
//@ func NewHTPasswdValidator
//@ prop C20
//@ at call WatchFileForUpdates assert[watches-the-configured-file] arg(WatchFileForUpdates, 0) == path && ret(loadHTPasswdFile) == nil
//@ ensures[unloadable-file-is-an-error] ret(loadHTPasswdFile) != nil ==> ret1 != nil && ret0 == nil
//@ at call loadHTPasswdFile assert[loads-the-configured-file] arg(loadHTPasswdFile, 1) == path

//@ func NewHTPasswdValidator$1
//@ prop C20
//@ ensures[an-update-reloads-this-map-from-the-same-path] called(loadHTPasswdFile) && recv(loadHTPasswdFile) == h && arg(loadHTPasswdFile, 1) == path

// ------------------------------------------------------------------ C20 / C19: the new map is complete before it is returned; a malformed
// record (one field, or more than two) makes the whole parse an error whatever comes after it; nothing is indexed unchecked
//@ func createHtpasswdMap
//@ safety
//@ prop C20 C19
//@ loop 0 invariant[malformed-records-are-remembered] rangeindex >= -1 && rangeindex < len(records) && h != nil && h.users != nil
//@     && ((exists j int :: 0 <= j && j <= rangeindex && (len(records[j]) == 1 || len(records[j]) > 2)) ==> len(invalidRecords) > 0)
//@ ensures[a-malformed-record-is-an-error] (exists j int :: 0 <= j && j < len(records) && (len(records[j]) == 1 || len(records[j]) > 2)) ==> ret1 != nil
//@ ensures[a-non-empty-map-or-an-error] ret1 == nil ==> ret0 != nil && ret0.users != nil && len(ret0.users) > 0

//@ func passShaOrBcrypt
//@ safety
//@ prop C20 C19
//@ requires h.users != nil
//@ modifies maps
//@ ensures[the-map-stays-the-callers] h.users == old(h.users)
