//go:build verif

package util

// Contracts for gcv (comment-only file; compiled only with -tags verif, and then to nothing).

// hostMatch: the whitelist-domain rule for one host pattern, from the documentation of --whitelist-domain:
// exact host, or a leading "." / "*." pattern matching the domain itself and its sub-domains.
//@ define hostMatch(h string, a string) bool = h == strings.TrimPrefix(a, ".") || h == strings.TrimPrefix(a, "*.")
//@     || (HasPrefix(a, ".") && HasSuffix(h, a)) || (HasPrefix(a, "*.") && HasSuffix(h, a[1:]))
//@ define portMatch(allowed string, actual string) bool = allowed == "*" || allowed == actual

//@ func isHostnameAllowed
//@ safety
//@ nomod
//@ prop C06 C08
//@ ensures[rule] result <==> hostMatch(hostname, allowedHost)

//@ func validOptionalPort
//@ safety
//@ nomod
//@ prop C06 C19
//@ ensures[shape] result ==> port == "" || port == ":*" || port[0] == ':'

//@ func SplitHostPort
//@ safety
//@ pure
//@ specname allowedHostOf allowedPortOf
//@ prop C06 C19

//@ func IsEndpointAllowed
//@ safety
//@ nomod
//@ prop C06 C08
//@ ensures[only-if-a-configured-rule-matches-host-and-port] result ==> exists k int :: 0 <= k && k < len(allowedDomains)
//@     && allowedHostOf(allowedDomains[k]) != "" && hostMatch(net_url_Hostname(endpoint), allowedHostOf(allowedDomains[k]))
//@     && portMatch(allowedPortOf(allowedDomains[k]), net_url_Port(endpoint))
//@ loop 0 invariant[no-earlier-rule-matched] rangeindex >= -1 && forall j int :: 0 <= j && j <= rangeindex ==>
//@     !(allowedHostOf(allowedDomains[j]) != "" && hostMatch(hostname, allowedHostOf(allowedDomains[j]))
//@       && portMatch(allowedPortOf(allowedDomains[j]), net_url_Port(endpoint)))
//@ ensures[if-a-configured-rule-matches] !result ==> forall j int :: 0 <= j && j < len(allowedDomains) ==>
//@     !(allowedHostOf(allowedDomains[j]) != "" && hostMatch(net_url_Hostname(endpoint), allowedHostOf(allowedDomains[j]))
//@       && portMatch(allowedPortOf(allowedDomains[j]), net_url_Port(endpoint)))
