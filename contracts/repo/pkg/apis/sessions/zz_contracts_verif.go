//go:build verif

package sessions

// Contracts for gcv (comment-only file; compiled only with -tags verif, and then to nothing).

// ------------------------------------------------------------------ C07 / C19: the claim accessor
//@ func (*SessionState).GetClaim
//@ safety
//@ nilable s
//@ nomod
//@ prop C07 C19
//@ ensures[no-session-no-values] s == nil ==> len(result) == 0
//@ ensures[access-token] s != nil && claim == "access_token" ==> len(result) == 1 && result[0] == s.AccessToken
//@ ensures[id-token] s != nil && claim == "id_token" ==> len(result) == 1 && result[0] == s.IDToken
//@ ensures[refresh-token] s != nil && claim == "refresh_token" ==> len(result) == 1 && result[0] == s.RefreshToken
//@ ensures[email] s != nil && claim == "email" ==> len(result) == 1 && result[0] == s.Email
//@ ensures[user] s != nil && claim == "user" ==> len(result) == 1 && result[0] == s.User
//@ ensures[preferred-username] s != nil && claim == "preferred_username" ==> len(result) == 1 && result[0] == s.PreferredUsername
//@ ensures[groups-length] s != nil && claim == "groups" ==> len(result) == len(s.Groups)
//@ ensures[unknown-claim-no-values] s != nil && claim != "access_token" && claim != "id_token" && claim != "created_at" && claim != "expires_on"
//@     && claim != "refresh_token" && claim != "email" && claim != "user" && claim != "groups" && claim != "preferred_username"
//@     ==> len(result) == 0

//@ func (*SessionState).CheckNonce
//@ nomod
//@ prop C05
//@ ensures[hash-match-with-session-nonce] result <==> ite(s.Nonce == nil, "", hashOf(bytes(s.Nonce))) == hashed

// ------------------------------------------------------------------ C02: encoding is encryption
// ------------------------------------------------------------------ C10: compression is lossless whatever the content
// (stream ghosts and the lz4 round-trip axiom: contracts/stdlib.spec)
//@ func lz4Compress
//@ safety
//@ prop C10
//@ ensures[compressed-form-of-the-whole-payload] ret1 == nil ==> bytes(ret0) == lz4enc(bytes(payload))
//@ ensures[failures-give-no-data] ret1 != nil ==> ret0 == nil

//@ func lz4Decompress
//@ safety
//@ prop C10
//@ ensures[the-whole-decompressed-stream] ret1 == nil ==> bytes(ret0) == lz4dec(bytes(compressed))
//@ ensures[failures-give-no-data] ret1 != nil ==> ret0 == nil

//@ func (*SessionState).EncodeSessionState
//@ prop C02
//@ ensures[output-is-cipher-output] ret1 == nil ==> (called(Encrypt#0) && ret0 == ret0(Encrypt#0) && ret1(Encrypt#0) == nil && recv(Encrypt#0) == c)
//@     || (called(Encrypt#1) && ret0 == ret0(Encrypt#1) && ret1(Encrypt#1) == nil && recv(Encrypt#1) == c)
//@ at call Encrypt#0 assert[encrypts-the-packed-session] arg(Encrypt#0, 0) == ret0(msgpack.Marshal) && ret1(msgpack.Marshal) == nil
//@ at call Encrypt#1 assert[encrypts-the-compressed-packed-session] arg(Encrypt#1, 0) == ret0(lz4Compress) && ret1(lz4Compress) == nil
//@     && arg(lz4Compress, 0) == ret0(msgpack.Marshal)

//@ func DecodeSessionState
//@ prop C02 C13 C01
//@ ensures[session-only-from-successful-decrypt] ret0 != nil ==> ret1(Decrypt) == nil && recv(Decrypt) == c && arg(Decrypt, 0) == data
//@     && ret(msgpack.Unmarshal) == nil && ret1 == nil
//@ ensures[error-means-no-session] ret1 != nil ==> ret0 == nil
//@ prop C13 C19
//@ ensures[no-error-means-a-session] ret1 == nil ==> ret0 != nil

// ------------------------------------------------------------------ C12 / C13: the session's lock operations are the store lock's
//@ func (*SessionState).ObtainLock
//@ prop C12 C13
//@ ensures[result-of-the-sessions-lock] ret0 == ret(Obtain) && arg(Obtain, 1) == expiration && (old(s.Lock) != nil ==> recv(Obtain) == old(s.Lock))
//@ func (*SessionState).RefreshLock
//@ prop C12 C13
//@ ensures[result-of-the-sessions-lock] ret0 == ret(Refresh) && arg(Refresh, 1) == expiration && (old(s.Lock) != nil ==> recv(Refresh) == old(s.Lock))
//@ func (*SessionState).ReleaseLock
//@ prop C12 C13
//@ ensures[result-of-the-sessions-lock] ret0 == ret(Release) && (old(s.Lock) != nil ==> recv(Release) == old(s.Lock))
//@ func (*SessionState).PeekLock
//@ prop C12 C13
//@ ensures[result-of-the-sessions-lock] ret0 == ret0(Peek) && ret1 == ret1(Peek) && (old(s.Lock) != nil ==> recv(Peek) == old(s.Lock))
