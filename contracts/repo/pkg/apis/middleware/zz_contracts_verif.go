//go:build verif

package middleware

// Contracts for gcv (comment-only file; compiled only with -tags verif, and then to nothing).

// (no `safety` here: the unchecked scope.(*RequestScope) assertion relies on the private key type scopeKey —
//  only AddRequestScope stores under it; reported by the C19 sweep as not decided)
//@ func GetRequestScope
//@ nomod
//@ prop C01 C16
//@ ensures[scope-from-context] ret(Value) == nil ==> result == nil

// ------------------------------------------------------------------ C01 / C16: who writes the request scope
//@ prop C01
//@ scan[scope-session-writers] field-writers RequestScope.Session pkg/middleware.(*storedSessionLoader).loadSession$1 pkg/middleware.(*jwtSessionLoader).loadSession$1 pkg/middleware.loadBasicAuthSession$2
//@ prop C16
//@ scan[reverse-proxy-flag-writers] field-writers RequestScope.ReverseProxy pkg/middleware.NewScope$1$1

// ------------------------------------------------------------------ C04 / C14: a bearer token becomes a session only after it verified,
// its claims decoded into their declared types (email_verified into a *bool: any other JSON type is a decoding error), and its
// e-mail is not marked unverified; the session's identity fields are those claims
// verify is a verifier's Verify method value (providers: p.Verifier.Verify; extra JWT issuers: verifier.Verify): it answers
// with a token or an error, never neither (pkg/providers/oidc: (*idTokenVerifier).Verify is verified to do so)
//@ func funcval verify
//@ ensures[token-or-error] ret1 == nil ==> ret0 != nil

//@ func CreateTokenToSessionFunc$1
//@ safety
//@ prop C04 C14 C01
//@ at call Claims assert[claims-of-the-verified-token] recv(Claims) == ret0(verify) && ret1(verify) == nil && arg(verify, 1) == token
//@     && arg(Claims, 1) == &claims
//@ ensures[unverifiable-token-gives-no-session] ret1(verify) != nil ==> ret0 == nil && ret1 == ret1(verify) && !called(Claims)
//@ ensures[undecodable-claims-give-no-session] called(Claims) && ret(Claims) != nil ==> ret0 == nil && ret1 != nil
//@ ensures[unverified-email-gives-no-session] called(Claims) && claims.Verified != nil && !deref(claims.Verified) ==> ret0 == nil && ret1 != nil
//@ ensures[session-carries-the-tokens-claims] ret1 == nil ==> ret0 != nil && ret0.User == claims.Subject && ret0.Email == claims.Email
//@     && (claims.Email == claims.Subject || claims.Email != "") && ret0.Groups == claims.Groups
//@     && ret0.PreferredUsername == claims.PreferredUsername && ret0.IDToken == token && ret0.AccessToken == token && ret0.RefreshToken == ""
//@     && ret0.ExpiresOn == &ret0(verify).Expiry
