//go:build verif

package middleware

// Contracts for gcv (comment-only file; compiled only with -tags verif, and then to nothing).

// (no `safety` here: the unchecked scope.(*RequestScope) assertion relies on the private key type scopeKey —
//  only AddRequestScope stores under it; reported by the C19 sweep as not decided)
//@ func GetRequestScope
//@ nomod
//@ prop C01 C16
//@ ensures[scope-from-context] ret(Value) == nil ==> result == nil

// ------------------------------------------------------------------ C01 / C16: who writes the request scope
//@ prop C01
//@ scan[scope-session-writers] field-writers RequestScope.Session pkg/middleware.(*storedSessionLoader).loadSession$1 pkg/middleware.(*jwtSessionLoader).loadSession$1 pkg/middleware.loadBasicAuthSession$2
//@ prop C16
//@ scan[reverse-proxy-flag-writers] field-writers RequestScope.ReverseProxy pkg/middleware.NewScope$1$1
