//go:build verif

package options

// Contracts for gcv (comment-only file; compiled only with -tags verif, and then to nothing).

// Cookie options are configuration: written while options are loaded/validated, never by request handling
// (scan "cookie-options-writers" in the root package).
//@ stable Cookie.*

// reverse-proxy mode is fixed when the options are loaded
//@ stable Options.ReverseProxy Options.SkipJwtBearerTokens Options.Cookie Options.HtpasswdUserGroups Options.LegacyPreferEmailToUser

//@ prop C16
//@ scan[real-client-ip-parser-writers] field-writers Options.realClientIPParser pkg/apis/options.(*Options).SetRealClientIPParser
//@ scan[real-client-ip-parser-setter-callers] callers (*Options).SetRealClientIPParser pkg/validation.Validate
//@ scan[reverse-proxy-option-writers] field-writers Options.ReverseProxy pkg/apis/options.NewOptions pkg/apis/options.(*LegacyOptions).ToOptions

// getters of the values validation stored: plain field reads
//@ func (*Options).GetRealClientIPParser
//@ prop C16 C15
//@ nomod
//@ ensures[returns-the-stored-parser] result == o.realClientIPParser

//@ func (*Options).GetRedirectURL
//@ prop C06 C17
//@ nomod
//@ ensures[returns-the-stored-url] result == o.redirectURL

//@ func (*Options).GetSignatureData
//@ prop C07
//@ nomod
//@ ensures[returns-the-stored-signature-data] result == o.signatureData

//@ func (*Options).GetOIDCVerifier
//@ prop C04
//@ nomod
//@ ensures[returns-the-stored-verifier] result == o.oidcVerifier

//@ func (*Options).GetJWTBearerVerifiers
//@ prop C04
//@ nomod
//@ ensures[returns-the-stored-verifiers] result == o.jwtBearerVerifiers
