//go:build verif

package options

// Contracts for gcv (comment-only file; compiled only with -tags verif, and then to nothing).

// Cookie options are configuration: written while options are loaded/validated, never by request handling
// (scan "cookie-options-writers" below).
//@ stable Cookie.*
//@ prop C09 C18 C02 C10 C11
//@ scan[cookie-options-writers] field-writers Cookie.* pkg/apis/options.cookieDefaults pkg/sessions/tests.*

// reverse-proxy mode is fixed when the options are loaded
//@ stable Options.ReverseProxy Options.SkipJwtBearerTokens Options.Cookie Options.HtpasswdUserGroups Options.LegacyPreferEmailToUser Options.ForceHTTPS

//@ prop C16
//@ scan[real-client-ip-parser-writers] field-writers Options.realClientIPParser pkg/apis/options.(*Options).SetRealClientIPParser
//@ scan[real-client-ip-parser-setter-callers] callers (*Options).SetRealClientIPParser pkg/validation.Validate
//@ scan[reverse-proxy-option-writers] field-writers Options.ReverseProxy pkg/apis/options.NewOptions pkg/apis/options.(*LegacyOptions).ToOptions

// getters of the values validation stored: plain field reads
//@ func (*Options).GetRealClientIPParser
//@ prop C16 C15
//@ nomod
//@ ensures[returns-the-stored-parser] result == o.realClientIPParser

//@ func (*Options).GetRedirectURL
//@ prop C06 C17
//@ nomod
//@ ensures[returns-the-stored-url] result == o.redirectURL

//@ func (*Options).GetSignatureData
//@ prop C07
//@ nomod
//@ ensures[returns-the-stored-signature-data] result == o.signatureData

//@ func (*Options).GetOIDCVerifier
//@ prop C04
//@ nomod
//@ ensures[returns-the-stored-verifier] result == o.oidcVerifier

//@ func (*Options).GetJWTBearerVerifiers
//@ prop C04
//@ nomod
//@ ensures[returns-the-stored-verifiers] result == o.jwtBearerVerifiers

// ------------------------------------------------------------------ C07: legacy header flags become the same injection rules
// one header, one value, taken from one session claim
//@ define claimHeader(h Header, name string, claim string, prefix string) bool = h.Name == name && len(h.Values) == 1
//@     && h.Values[0].SecretSource == nil && h.Values[0].ClaimSource != nil && h.Values[0].ClaimSource.Claim == claim
//@     && h.Values[0].ClaimSource.Prefix == prefix

//@ func getPassAccessTokenHeader
//@ nomod
//@ fresh
//@ prop C07
//@ ensures[access-token-header] claimHeader(result, "X-Forwarded-Access-Token", "access_token", "") && result.Values[0].ClaimSource.BasicAuthPassword == nil

//@ func getAuthorizationHeader
//@ nomod
//@ fresh
//@ prop C07
//@ ensures[bearer-id-token-header] claimHeader(result, "Authorization", "id_token", "Bearer ") && result.Values[0].ClaimSource.BasicAuthPassword == nil

//@ func getPreferredUsernameHeader
//@ nomod
//@ fresh
//@ prop C07
//@ ensures[preferred-username-header] claimHeader(result, "X-Forwarded-Preferred-Username", "preferred_username", "") && result.Values[0].ClaimSource.BasicAuthPassword == nil

//@ func getXAuthRequestAccessTokenHeader
//@ nomod
//@ fresh
//@ prop C07
//@ ensures[auth-request-access-token-header] claimHeader(result, "X-Auth-Request-Access-Token", "access_token", "") && result.Values[0].ClaimSource.BasicAuthPassword == nil

//@ func getBasicAuthHeader
//@ nomod
//@ fresh
//@ prop C07
//@ ensures[basic-authorization-from-user-or-email] claimHeader(result, "Authorization", ite(preferEmailToUser, "email", "user"), "Basic ")
//@     && result.Values[0].ClaimSource.BasicAuthPassword != nil && bytes(result.Values[0].ClaimSource.BasicAuthPassword.Value) == basicAuthPassword

//@ func getPassUserHeaders
//@ nomod
//@ fresh
//@ prop C07
//@ ensures[groups-user-and-email-headers] claimHeader(result[0], "X-Forwarded-Groups", "groups", "")
//@     && (preferEmailToUser ==> len(result) == 2 && claimHeader(result[1], "X-Forwarded-User", "email", ""))
//@     && (!preferEmailToUser ==> len(result) == 3 && claimHeader(result[1], "X-Forwarded-User", "user", "") && claimHeader(result[2], "X-Forwarded-Email", "email", ""))

//@ func getXAuthRequestHeaders
//@ nomod
//@ fresh
//@ prop C07
//@ ensures[the-four-auth-request-headers] len(result) == 4 && claimHeader(result[0], "X-Auth-Request-User", "user", "")
//@     && claimHeader(result[1], "X-Auth-Request-Email", "email", "") && claimHeader(result[2], "X-Auth-Request-Preferred-Username", "preferred_username", "")
//@     && claimHeader(result[3], "X-Auth-Request-Groups", "groups", "")

//@ func (*LegacyHeaders).getRequestHeaders
//@ prop C07
//@ loop 0 invariant[earlier-headers-follow-the-strip-option] rangeindex >= -1 && rangeindex < len(requestHeaders)
//@     && forall j int :: 0 <= j && j <= rangeindex ==> requestHeaders[j].PreserveRequestValue == !l.SkipAuthStripHeaders
//@ ensures[client-values-preserved-only-when-strip-is-skipped] forall j int :: 0 <= j && j < len(result) ==> result[j].PreserveRequestValue == !l.SkipAuthStripHeaders
//@ ensures[headers-only-for-enabled-flags] (called(getBasicAuthHeader) <==> l.PassBasicAuth && l.BasicAuthPassword != "")
//@     && (called(getPassUserHeaders) <==> l.PassBasicAuth || l.PassUserHeaders) && (called(getPassAccessTokenHeader) <==> l.PassAccessToken)
//@     && (called(getAuthorizationHeader) <==> l.PassAuthorization)
//@ ensures[no-flag-no-header] !l.PassBasicAuth && !l.PassUserHeaders && !l.PassAccessToken && !l.PassAuthorization ==> len(result) == 0

//@ func (*LegacyHeaders).getResponseHeaders
//@ prop C07
//@ ensures[headers-only-for-enabled-flags] (called(getXAuthRequestHeaders) <==> l.SetXAuthRequest)
//@     && (called(getXAuthRequestAccessTokenHeader) <==> l.SetXAuthRequest && l.PassAccessToken)
//@     && (called(getBasicAuthHeader) <==> l.SetBasicAuth) && (called(getAuthorizationHeader) <==> l.SetAuthorization)
//@ ensures[no-flag-no-header] !l.SetXAuthRequest && !l.SetBasicAuth && !l.SetAuthorization ==> len(result) == 0

//@ func (*LegacyHeaders).convert
//@ prop C07
//@ ensures[request-and-response-lists] ret0 == ret(getRequestHeaders) && ret1 == ret(getResponseHeaders)

//@ func (*LegacyOptions).ToOptions
//@ prop C07 C17
//@ at call convert#2 assert[converted-lists-become-the-injection-options] l.Options.InjectRequestHeaders == ret0(convert#1)
//@     && l.Options.InjectResponseHeaders == ret1(convert#1) && ret1(convert#0) == nil
//@ at call convert#1 assert[headers-converted-from-the-legacy-header-flags] recv(convert#1) == &l.LegacyHeaders && l.Options.UpstreamServers == ret0(convert#0)
//@ ensures[the-options-being-filled-are-returned] ret1 == nil ==> ret0 == &l.Options

// ------------------------------------------------------------------ C04 / C05 / C08: the legacy provider flags become the one structured provider
// field by field: what decides whose tokens are accepted, how the login is bound and who is authorised is exactly what
// the operator wrote (the deprecated force-code-challenge-method is only a fallback for an unset code-challenge-method)
//@ func (*LegacyProvider).convert
//@ prop C04 C05 C08 C14
//@ ensures[exactly-one-provider] ret1 == nil ==> len(ret0) == 1
//@ ensures[pkce-method-configured-else-the-deprecated-force-flag] ret1 == nil ==> ret0[0].CodeChallengeMethod
//@     == ite(old(l.CodeChallengeMethod) != "", old(l.CodeChallengeMethod), old(l.ForceCodeChallengeMethod))
//@ ensures[client-and-endpoints-as-configured] ret1 == nil ==> ret0[0].ClientID == old(l.ClientID) && ret0[0].ClientSecret == old(l.ClientSecret)
//@     && ret0[0].ClientSecretFile == old(l.ClientSecretFile) && ret0[0].LoginURL == old(l.LoginURL) && ret0[0].RedeemURL == old(l.RedeemURL)
//@     && ret0[0].ProfileURL == old(l.ProfileURL) && ret0[0].ValidateURL == old(l.ValidateURL) && ret0[0].Scope == old(l.Scope)
//@     && ret0[0].SkipClaimsFromProfileURL == old(l.SkipClaimsFromProfileURL) && ret0[0].AllowedGroups == old(l.AllowedGroups)
//@ ensures[token-verification-options-as-configured] ret1 == nil ==> ret0[0].OIDCConfig.IssuerURL == old(l.OIDCIssuerURL)
//@     && ret0[0].OIDCConfig.InsecureAllowUnverifiedEmail == old(l.InsecureOIDCAllowUnverifiedEmail)
//@     && ret0[0].OIDCConfig.InsecureSkipIssuerVerification == old(l.InsecureOIDCSkipIssuerVerification)
//@     && ret0[0].OIDCConfig.InsecureSkipNonce == old(l.InsecureOIDCSkipNonce) && ret0[0].OIDCConfig.SkipDiscovery == old(l.SkipOIDCDiscovery)
//@     && ret0[0].OIDCConfig.JwksURL == old(l.OIDCJwksURL) && ret0[0].OIDCConfig.UserIDClaim == old(l.UserIDClaim)
//@     && ret0[0].OIDCConfig.EmailClaim == old(l.OIDCEmailClaim) && ret0[0].OIDCConfig.GroupsClaim == old(l.OIDCGroupsClaim)
//@     && ret0[0].OIDCConfig.AudienceClaims == old(l.OIDCAudienceClaims) && ret0[0].OIDCConfig.ExtraAudiences == old(l.OIDCExtraAudiences)
//@     && ret0[0].OIDCConfig.PublicKeyFiles == old(l.OIDCPublicKeyFiles)
//@ ensures[keycloak-roles-and-entra-tenants-as-configured] ret1 == nil ==> (old(l.ProviderType) == "keycloak-oidc" ==> ret0[0].KeycloakConfig.Roles == old(l.AllowedRoles)
//@     && ret0[0].KeycloakConfig.Groups == old(l.KeycloakGroups))
//@     && (old(l.ProviderType) == "entra-id" ==> ret0[0].MicrosoftEntraIDConfig.AllowedTenants == old(l.EntraIDAllowedTenants))

// `stable Options.Cookie / Options.LegacyPreferEmailToUser`: the cookie options live inside Options and are shared by address
// with the stores NewOAuthProxy builds (what may write *into* them is the scan cookie-options-writers); the legacy flag is set by
// the legacy conversion, before validation
//@ prop C01 C07 C09 C18 C19
//@ scan[stable:cookie-options-shared-by-the-constructor-only] field-writers Options.Cookie main.NewOAuthProxy main.buildSessionChain pkg/apis/options.NewOptions pkg/apis/options.(*LegacyOptions).ToOptions pkg/sessions/tests.* pkg/validation.*
//@ scan[stable:legacy-prefer-email-set-by-the-legacy-conversion] field-writers Options.LegacyPreferEmailToUser pkg/apis/options.(*LegacyOptions).ToOptions pkg/apis/options.NewOptions


// ------------------------------------------------------------------ C07 / C05 / C04: the structured configuration is decoded strictly: a key that
// is unknown or given twice is an error (a second "name:" under one list item would silently replace the first header), and a
// file that cannot be read or substituted is an error
//@ func LoadYAML
//@ prop C07 C05 C04 C01
//@ ensures[decoded-strictly-or-an-error] ret0 == nil ==> called(UnmarshalStrict) && ret(UnmarshalStrict) == nil && arg(UnmarshalStrict, 1) == into
//@     && arg(UnmarshalStrict, 0) == ret0(loadAndParseYaml) && ret1(loadAndParseYaml) == nil && arg(loadAndParseYaml, 0) == configFileName
//@ ensures[unreadable-configuration-is-an-error] called(loadAndParseYaml) && ret1(loadAndParseYaml) != nil ==> ret0 != nil && !called(UnmarshalStrict)

// the structured sections replace the corresponding core sections wholesale
//@ func (*AlphaOptions).MergeInto
//@ prop C07 C05 C04 C01 C17
//@ ensures[sections-copied-as-decoded] opts.Providers == old(a.Providers) && opts.InjectRequestHeaders == old(a.InjectRequestHeaders)
//@     && opts.InjectResponseHeaders == old(a.InjectResponseHeaders)
