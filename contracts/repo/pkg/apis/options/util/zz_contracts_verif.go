//go:build verif

package util

// Contracts for gcv (comment-only file; compiled only with -tags verif, and then to nothing).

// ------------------------------------------------------------------ C07 / C19: a secret comes from exactly one of value / environment / file
//@ func GetSecretValue
//@ safety
//@ nomod
//@ prop C07 C19
//@ ensures[inline-value-as-given] len(source.Value) > 0 && source.FromEnv == "" && source.FromFile == "" ==> ret1 == nil && ret0 == source.Value
//@ ensures[from-the-named-environment-variable] len(source.Value) == 0 && source.FromEnv != "" && source.FromFile == "" ==> ret1 == nil
//@     && called(os.Getenv) && arg(os.Getenv, 0) == source.FromEnv && bytes(ret0) == ret(os.Getenv)
//@ ensures[from-the-named-file] len(source.Value) == 0 && source.FromEnv == "" && source.FromFile != "" ==> called(os.ReadFile)
//@     && arg(os.ReadFile, 0) == source.FromFile && ret0 == ret0(os.ReadFile) && ret1 == ret1(os.ReadFile)
//@ ensures[anything-else-is-an-error] !called(os.Getenv) && !called(os.ReadFile) && !(len(source.Value) > 0 && source.FromEnv == "" && source.FromFile == "")
//@     ==> ret1 != nil && ret0 == nil
