//go:build verif

package logger

// Logging writes only logger-internal state and the output streams; neither is part of any property.
// Trusted (bodies not verified): listed as an assumption in every evidence file that uses it.

//@ package-default trusted nomod
