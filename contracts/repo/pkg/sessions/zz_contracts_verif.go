//go:build verif

package sessions

// Contracts for gcv (comment-only file; compiled only with -tags verif, and then to nothing).

// ------------------------------------------------------------------ C01 / C13: which store serves the configured type
// (the two type names are package variables of pkg/apis/options, never assigned: see the scan)
//@ func NewSessionStore
//@ prop C01 C13 C10
//@ ensures[cookie-type-gives-the-cookie-store] old(opts.Type) == options.CookieSessionStoreType ==> called(NewCookieSessionStore) && ret0 == ret0(NewCookieSessionStore)
//@     && ret1 == ret1(NewCookieSessionStore) && arg(NewCookieSessionStore, 1) == cookieOpts && !called(NewRedisSessionStore)
//@ ensures[redis-type-gives-the-redis-store] old(opts.Type) == options.RedisSessionStoreType ==> called(NewRedisSessionStore) && ret0 == ret0(NewRedisSessionStore)
//@     && ret1 == ret1(NewRedisSessionStore) && arg(NewRedisSessionStore, 1) == cookieOpts && !called(NewCookieSessionStore)
//@ ensures[unknown-type-is-an-error] old(opts.Type) != options.CookieSessionStoreType && old(opts.Type) != options.RedisSessionStoreType ==> ret1 != nil && ret0 == nil
//@ requires[config:store-type-names-distinct] options.CookieSessionStoreType != options.RedisSessionStoreType
//@ prop C19 C01 C13
//@ ensures[nonnil:a-store-or-an-error] ret1 == nil ==> ret0 != nil
