//go:build verif

package redis

// Contracts for gcv (comment-only file; compiled only with -tags verif, and then to nothing).

//@ stable SessionStore.*
//@ nonnil SessionStore.Client

// ------------------------------------------------------------------ C09 / C11 / C13: the redis store passes things through
//@ func (*SessionStore).Save
//@ prop C09 C13
//@ ensures[stored-under-key-with-given-lifetime] arg(Set, 1) == key && arg(Set, 2) == value && arg(Set, 3) == exp
//@ ensures[error-iff-client-error] ret0 == nil <==> ret(Set) == nil

//@ func (*SessionStore).Load
//@ prop C13
//@ ensures[client-error-is-error] ret1(Get) != nil ==> ret1 != nil && ret0 == nil
//@ ensures[data-passthrough] ret1(Get) == nil ==> ret0 == ret0(Get) && ret1 == nil && arg(Get, 1) == key

//@ func (*SessionStore).Clear
//@ prop C11 C13
//@ ensures[deletes-the-key] arg(Del, 1) == key
//@ ensures[error-iff-client-error] ret0 == nil <==> ret(Del) == nil

//@ func (*SessionStore).VerifyConnection
//@ prop C13
//@ ensures[ping-passthrough] ret0 == ret(Ping)

//@ func NewRedisSessionStore
//@ prop C13 C09 C19
//@ at call NewManager assert[nonnil:store-over-the-built-client] typeis(arg(NewManager, 0), "*SessionStore")
//@     && as(arg(NewManager, 0), "*SessionStore").Client == ret0(NewRedisClient) && ret1(NewRedisClient) == nil && ret0(NewRedisClient) != nil
//@ prop C13 C09
//@ ensures[manager-over-this-redis-store-with-the-cookie-options] ret1 == nil ==> called(NewManager) && arg(NewManager, 1) == cookieOpts
//@ ensures[client-error-is-an-error] ret1(NewRedisClient) != nil ==> ret1 != nil && ret0 == nil
//@ prop C19 C13
//@ ensures[nonnil:a-store-or-an-error] ret1 == nil ==> ret0 != nil

// ------------------------------------------------------------------ C12 / C13: the session lock fails closed
//@ func (*Lock).Obtain
//@ prop C13 C12
//@ ensures[success-only-after-a-successful-lock-command] ret0 == nil ==> called(Obtain) && ret1(Obtain) == nil && l.lock == ret0(Obtain)
//@ ensures[lock-command-error-is-reported] ret1(Obtain) != nil ==> ret0 != nil
//@ ensures[contention-is-reported-as-lock-not-obtained] errors.Is(ret1(Obtain), redislock.ErrNotObtained) ==> ret0 == sessions.ErrLockNotObtained
//@ at call Obtain assert[locks-this-sessions-key] arg(Obtain, 0) == l.locker && arg(Obtain, 2) == l.key + ".lock" && arg(Obtain, 3) == expiration

//@ func (*Lock).Refresh
//@ prop C13 C12
//@ ensures[not-locked-is-an-error] old(l.lock) == nil ==> ret0 != nil && !called(Refresh)
//@ ensures[success-only-after-a-successful-refresh-command] ret0 == nil ==> called(Refresh) && ret(Refresh) == nil && arg(Refresh, 0) == old(l.lock)
//@     && arg(Refresh, 2) == expiration

//@ func (*Lock).Release
//@ prop C13 C12
//@ ensures[not-locked-is-an-error] old(l.lock) == nil ==> ret0 != nil && !called(Release)
//@ ensures[success-only-after-a-successful-release-command] ret0 == nil ==> called(Release) && ret(Release) == nil && arg(Release, 0) == old(l.lock)

//@ func (*Lock).Peek
//@ prop C13 C12
//@ ensures[command-error-is-reported] ret1(Result) != nil ==> ret1 != nil && !ret0
//@ ensures[held-iff-the-lock-key-exists] ret1(Result) == nil ==> ret1 == nil && (ret0 <==> ret0(Result) != 0)
//@ at call Exists assert[asks-about-this-sessions-lock-key] arg(Exists, 1)[0] == l.key + ".lock" && len(arg(Exists, 1)) == 1 && recv(Exists) == l.client

//@ func NewLock
//@ prop C13 C12
//@ fresh
//@ ensures[lock-for-this-key-not-yet-held] result != nil

//@ func (*SessionStore).Lock
//@ prop C13 C12
//@ ensures[lock-of-the-client-for-this-key] result == ret(Lock) && arg(Lock, 0) == key && recv(Lock) == old(store.Client)

// the two client wrappers pass commands and their errors through
//@ func (*client).Get
//@ prop C13
//@ ensures[passthrough] ret0 == ret0(Bytes) && ret1 == ret1(Bytes) && recv(Bytes) == ret(Get) && arg(Get, 2) == key
//@ func (*client).Set
//@ prop C13 C09
//@ ensures[passthrough] ret0 == ret(Err) && recv(Err) == &ret(Set).baseCmd && arg(Set, 2) == key && arg(Set, 4) == expiration
//@ func (*client).Del
//@ prop C13 C11
//@ ensures[passthrough] ret0 == ret(Err) && recv(Err) == &ret(Del).baseCmd
//@ at call Del assert[deletes-exactly-this-key] len(arg(Del, 2)) == 1 && arg(Del, 2)[0] == key
//@ func (*client).Ping
//@ prop C13
//@ ensures[passthrough] ret0 == ret(Err) && recv(Err) == &ret(Ping).baseCmd
//@ func (*client).Lock
//@ prop C13 C12
//@ ensures[a-lock-for-this-key] result == ret(NewLock) && arg(NewLock, 1) == key

//@ func (*clusterClient).Get
//@ prop C13
//@ ensures[passthrough] ret0 == ret0(Bytes) && ret1 == ret1(Bytes) && recv(Bytes) == ret(Get) && arg(Get, 2) == key
//@ func (*clusterClient).Set
//@ prop C13 C09
//@ ensures[passthrough] ret0 == ret(Err) && recv(Err) == &ret(Set).baseCmd && arg(Set, 2) == key && arg(Set, 4) == expiration
//@ func (*clusterClient).Del
//@ prop C13 C11
//@ ensures[passthrough] ret0 == ret(Err) && recv(Err) == &ret(Del).baseCmd
//@ at call Del assert[deletes-exactly-this-key] len(arg(Del, 2)) == 1 && arg(Del, 2)[0] == key
//@ func (*clusterClient).Ping
//@ prop C13
//@ ensures[passthrough] ret0 == ret(Err) && recv(Err) == &ret(Ping).baseCmd
//@ func (*clusterClient).Lock
//@ prop C13 C12
//@ ensures[a-lock-for-this-key] result == ret(NewLock) && arg(NewLock, 1) == key

//@ prop C19 C13
//@ scan[nonnil:redis-store-allocated-by-its-constructor] alloc-of pkg/sessions/redis.SessionStore pkg/sessions/redis.NewRedisSessionStore

//@ func NewRedisClient
//@ prop C19 C13
//@ ensures[nonnil:a-client-or-an-error] ret1 == nil ==> ret0 != nil

//@ func newClient
//@ prop C19 C13
//@ fresh
//@ ensures[nonnil:wrapper-over-the-given-client] result != nil && typeis(result, "*client") && as(result, "*client").Client == c
//@ func newClusterClient
//@ prop C19 C13
//@ fresh
//@ ensures[nonnil:wrapper-over-the-given-cluster-client] result != nil && typeis(result, "*clusterClient") && as(result, "*clusterClient").ClusterClient == c
//@ func buildSentinelClient
//@ shallow
//@ prop C19 C13
//@ ensures[nonnil:a-client-or-an-error] ret1 == nil ==> ret0 != nil
//@ func buildClusterClient
//@ shallow
//@ prop C19 C13
//@ ensures[nonnil:a-client-or-an-error] ret1 == nil ==> ret0 != nil
//@ func buildStandaloneClient
//@ shallow
//@ prop C19 C13
//@ ensures[nonnil:a-client-or-an-error] ret1 == nil ==> ret0 != nil
