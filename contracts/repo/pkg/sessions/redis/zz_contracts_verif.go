//go:build verif

package redis

// Contracts for gcv (comment-only file; compiled only with -tags verif, and then to nothing).

//@ stable SessionStore.*
//@ nonnil SessionStore.Client

// ------------------------------------------------------------------ C09 / C11 / C13: the redis store passes things through
//@ func (*SessionStore).Save
//@ prop C09 C13
//@ ensures[stored-under-key-with-given-lifetime] arg(Set, 1) == key && arg(Set, 2) == value && arg(Set, 3) == exp
//@ ensures[error-iff-client-error] ret0 == nil <==> ret(Set) == nil

//@ func (*SessionStore).Load
//@ prop C13
//@ ensures[client-error-is-error] ret1(Get) != nil ==> ret1 != nil && ret0 == nil
//@ ensures[data-passthrough] ret1(Get) == nil ==> ret0 == ret0(Get) && ret1 == nil && arg(Get, 1) == key

//@ func (*SessionStore).Clear
//@ prop C11 C13
//@ ensures[deletes-the-key] arg(Del, 1) == key
//@ ensures[error-iff-client-error] ret0 == nil <==> ret(Del) == nil

//@ func (*SessionStore).VerifyConnection
//@ prop C13
//@ ensures[ping-passthrough] ret0 == ret(Ping)

//@ func NewRedisSessionStore
//@ prop C13 C09
//@ ensures[manager-over-this-redis-store-with-the-cookie-options] ret1 == nil ==> called(NewManager) && arg(NewManager, 1) == cookieOpts
//@ ensures[client-error-is-an-error] ret1(NewRedisClient) != nil ==> ret1 != nil && ret0 == nil
