//go:build verif

package cookie

// Contracts for gcv (comment-only file; compiled only with -tags verif, and then to nothing).

//@ stable SessionStore.*
//@ nonnil SessionStore.Cookie SessionStore.CookieCipher

// ------------------------------------------------------------------ C01 / C02 / C09: load
//@ func (*SessionStore).Load
//@ prop C01 C02 C09
//@ at call DecodeSessionState assert[decode-only-validated-value] ret2(Validate) && arg(Validate, 0) == ret0(loadCookie)
//@     && ret1(loadCookie) == nil && arg(loadCookie, 1) == s.Cookie.Name && arg(Validate, 1) == s.Cookie.Secret
//@     && arg(Validate, 2) == s.Cookie.Expire && arg(DecodeSessionState, 0) == ret0(Validate)
//@     && arg(DecodeSessionState, 1) == s.CookieCipher
//@ ensures[session-only-via-decode] ret0 != nil ==> called(DecodeSessionState) && ret1(DecodeSessionState) == nil
//@     && ret0 == ret0(DecodeSessionState) && ret1 == nil
//@ ensures[error-means-no-session] ret1 != nil ==> ret0 == nil

// ------------------------------------------------------------------ C09 / C02 / C10: save
//@ func (*SessionStore).Save
//@ prop C09 C02 C10
//@ at call setSessionCookie assert[encoded-value-and-issue-time] ret1(cookieForSession) == nil
//@     && arg(setSessionCookie, 3) == ret0(cookieForSession) && arg(setSessionCookie, 4) == deref(ss.CreatedAt)
//@     && arg(cookieForSession, 1) == ss
//@ ensures[encode-error-no-cookie] ret1(cookieForSession) != nil ==> ret0 != nil && !called(setSessionCookie)

//@ func (*SessionStore).cookieForSession
//@ prop C02
//@ ensures[value-is-cipher-output] ret1 == nil ==> called(EncodeSessionState) && ret0 == ret0(EncodeSessionState)
//@ at call EncodeSessionState assert[encrypted-with-store-cipher] arg(EncodeSessionState, 1) == s.CookieCipher && arg(EncodeSessionState, 2)

//@ func (*SessionStore).makeSessionCookie
//@ requires[config:cookie-name-valid] validCookieName(s.Cookie.Name)
//@ prop C09 C02 C18
//@ at call SignedValue assert[signed-with-cookie-secret-name-and-time] arg(SignedValue, 0) == s.Cookie.Secret
//@     && arg(SignedValue, 1) == s.Cookie.Name && arg(SignedValue, 2) == value && arg(SignedValue, 3) == now
//@ at call makeCookie assert[name-and-lifetime] arg(makeCookie, 2) == s.Cookie.Name && arg(makeCookie, 4) == s.Cookie.Expire
//@     && (bytes(value) != "" ==> arg(makeCookie, 3) == ret0(SignedValue) && ret1(SignedValue) == nil)
//@ prop C10 C18
//@ ensures[unsplit-only-if-the-serialised-cookie-fits] ret1 == nil && !called(splitCookie) ==>
//@     overheadOf(ret(makeCookie), ret(makeCookie).Name) + len(ret(makeCookie).Value) <= 4000 && len(ret0) == 1 && ret0[0] == ret(makeCookie)
//@ ensures[otherwise-split] called(splitCookie) ==> arg(splitCookie, 0) == ret(makeCookie) && ret0 == ret(splitCookie)

//@ func (*SessionStore).makeCookie
//@ nomod
//@ fresh
//@ prop C18 C09
//@ ensures[named-and-valued-as-asked] result != nil && result.Name == name && result.Value == value
//@ ensures[single-constructor] ret0 == ret(MakeCookieFromOptions) && arg(MakeCookieFromOptions, 0) == req && arg(MakeCookieFromOptions, 1) == name
//@     && arg(MakeCookieFromOptions, 2) == value && arg(MakeCookieFromOptions, 3) == s.Cookie && arg(MakeCookieFromOptions, 4) == expiration

// ------------------------------------------------------------------ C11 / C18: clear
// A request cookie is a session cookie exactly when its name is the configured name or a part name as splitCookieName
// produces it (including the truncated form used for long names).
// partName: the name splitCookieName gives part k of a cookie (cut so that the whole name stays within 256 bytes)
//@ define partName(n string, k int) string = ite(len(n) + 1 + len(itoa(k)) <= 256, n + "_" + itoa(k), n[:255 - len(itoa(k))] + "_" + itoa(k))

//@ func isSessionCookieName
//@ safety
//@ nomod
//@ prop C11 C10 C19 C03
//@ requires[config:cookie-name-at-most-256-bytes] len(cookieName) <= 256
//@ ensures[the-base-name-is-a-session-cookie-name] name == cookieName ==> result
//@ ensures[only-names-save-can-emit] result ==> name == cookieName || (called(splitCookieName) && name == ret(splitCookieName)
//@     && arg(splitCookieName, 0) == cookieName && arg(splitCookieName, 1) >= 0)
// The converse (every part name partName(cookieName, k), k >= 0, is recognised) needs LastIndex/Atoi reasoning over the
// decimal rendering that none of the three solvers finishes (2 min each); it is covered by the bounded stand-in
// bounded/session_cookie_names_test.go.txt (labelled bounded, not counted as proved).

//@ func (*SessionStore).Clear
//@ prop C11 C18 C10 C03
//@ loop 0 ghost nsess int init 0 step ite(ret(isSessionCookieName), nsess + 1, nsess)
//@ loop 0 ghost ndel int init 0 step ite(called(http.SetCookie), ndel + 1, ndel)
//@ loop 0 invariant[one-deletion-per-presented-session-cookie] nsess == ndel
//@ at call isSessionCookieName assert[asks-about-each-presented-cookie-under-the-configured-name] arg(isSessionCookieName, 0) == s.Cookie.Name
//@     && arg(isSessionCookieName, 1) == c.Name
//@ at call makeCookie assert[deletion-same-name-empty-expired] arg(makeCookie, 2) == c.Name && arg(makeCookie, 3) == ""
//@     && arg(makeCookie, 4) < 0 && ret(isSessionCookieName)
//@ at call http.SetCookie assert[sets-the-deletion] arg(http.SetCookie, 1) == ret(makeCookie) && arg(http.SetCookie, 0) == rw
//@ ensures[never-fails] ret0 == nil

// ------------------------------------------------------------------ C10 / C18: splitting and joining
//@ define overheadOf(c *http.Cookie, name string) int = cookieOverhead(name, c.Path, c.Domain, c.MaxAge, c.Secure, c.HttpOnly, c.SameSite)

//@ func copyCookie
//@ nomod
//@ fresh
//@ prop C10 C18
//@ ensures[all-attributes-copied] result != nil && result.Name == c.Name && result.Value == c.Value && result.Path == c.Path
//@     && result.Domain == c.Domain && result.MaxAge == c.MaxAge && result.Secure == c.Secure && result.HttpOnly == c.HttpOnly
//@     && result.SameSite == c.SameSite

//@ func splitCookieName
//@ safety
//@ pure
//@ specname splitName
//@ prop C10 C19
//@ requires[config:cookie-name-at-most-256-bytes] len(name) <= 256
//@ ensures[name-underscore-index-when-it-fits] len(name) + 1 + len(itoa(count)) <= 256 && count >= 0 ==> result == name + "_" + itoa(count)
//@ ensures[long-names-are-cut-to-256-bytes] count >= 0 ==> result == partName(name, count)

// ghost acc: the concatenation, in emission order, of the values of the cookies appended so far
//@ func splitCookie
//@ safety
//@ prop C10 C18 C19
//@ requires[config:attribute-overhead-below-limit] forall k int :: k >= 0 ==> overheadOf(c, splitName(c.Name, k)) < 4000
//@ requires[config:cookie-name-at-most-256-bytes] len(c.Name) <= 256
//@ requires[config:cookie-name-valid] validCookieName(c.Name)
//@ uses part-names-of-valid-names-are-valid
//@ loop 0 ghost acc string init "" step acc + newCookie.Value
//@ loop 0 invariant[nothing-lost-nothing-duplicated] acc + bytes(valueBytes) == old(c.Value) && c.Value == old(c.Value) && c.Name == old(c.Name)
//@     && c.Path == old(c.Path) && c.Domain == old(c.Domain) && c.MaxAge == old(c.MaxAge) && c.Secure == old(c.Secure)
//@     && c.HttpOnly == old(c.HttpOnly) && c.SameSite == old(c.SameSite)
//@ loop 0 invariant[parts-numbered-consecutively] count == len(cookies) && count >= 0
//@ at call append assert[part-name] newCookie.Name == splitName(c.Name, count) && len(cookies) == count
//@ at call append assert[part-within-size-limit] overheadOf(c, newCookie.Name) + len(newCookie.Value) <= 4000
//@ at call append assert[part-makes-progress] len(newCookie.Value) > 0
//@ at call append assert[part-attributes-are-the-originals] newCookie.Path == c.Path && newCookie.Domain == c.Domain && newCookie.MaxAge == c.MaxAge
//@     && newCookie.Secure == c.Secure && newCookie.HttpOnly == c.HttpOnly && newCookie.SameSite == c.SameSite
//@ ensures[values-concatenate-to-the-original] len(ret(String#0)) >= 4000 ==> acc == old(c.Value)
//@ ensures[small-cookie-unsplit] len(ret(String#0)) < 4000 ==> len(result) == 1 && result[0] == c

// ghost acc: the concatenation, in index order, of the values of the cookies joined so far
//@ func joinCookies
//@ safety
//@ prop C10
//@ requires[every-part-is-a-cookie] forall k int :: 0 <= k && k < len(cookies) ==> cookies[k] != nil
//@ loop 0 ghost acc string init cookies[0].Value step acc + cookies[i].Value
//@ loop 0 invariant[joined-so-far] c.Value == acc && i >= 1 && forall k int :: 0 <= k && k < len(cookies) ==> cookies[k] != nil && cookies[k] != c
//@ ensures[empty-list-is-an-error] len(cookies) == 0 ==> ret1 != nil && ret0 == nil
//@ ensures[single-cookie-returned-as-is] len(cookies) == 1 ==> ret0 == cookies[0] && ret1 == nil
//@ ensures[values-concatenated-in-index-order-under-the-base-name] len(cookies) >= 2 ==> ret1 == nil && ret0.Value == acc && ret0.Name == cookieName

//@ func loadCookie
//@ safety
//@ prop C10
//@ ensures[unsplit-cookie-as-is] ret1(Cookie#0) == nil ==> ret0 == ret0(Cookie#0) && ret1 == nil
//@ at call Cookie#0 assert[looks-up-the-base-name] arg(Cookie#0, 1) == cookieName
//@ at call Cookie#1 assert[looks-up-consecutive-part-names] arg(Cookie#1, 1) == ret(splitCookieName) && arg(splitCookieName, 0) == cookieName
//@     && arg(splitCookieName, 1) == count && count == len(cookies)
//@ loop 0 invariant[parts-collected-consecutively] count == len(cookies) && count >= 0
//@     && (forall k int :: 0 <= k && k < len(cookies) ==> cookies[k] != nil)
//@ ensures[no-parts-no-cookie] !called(joinCookies) && ret1(Cookie#0) != nil ==> ret1 == http.ErrNoCookie && ret0 == nil
//@ at call joinCookies assert[joins-the-collected-parts-under-the-base-name] arg(joinCookies, 0) == cookies && arg(joinCookies, 1) == cookieName && len(cookies) > 0

//@ func (*SessionStore).setSessionCookie
//@ prop C10 C18 C12 C03
//@ at call http.SetCookie#0 assert[sets-every-part] arg(http.SetCookie#0, 0) == rw && ret1(makeSessionCookie) == nil
//@     && arg(http.SetCookie#0, 1) == ret0(makeSessionCookie)[rangeindex + 1]
//@ at call isSessionCookieName assert[asks-about-each-presented-cookie-under-the-configured-name] arg(isSessionCookieName, 0) == s.Cookie.Name
//@     && arg(isSessionCookieName, 1) == c.Name
//@ at call makeCookie assert[deletes-only-presented-session-cookies-not-just-set] arg(makeCookie, 2) == c.Name && arg(makeCookie, 3) == ""
//@     && arg(makeCookie, 4) < 0 && ret(isSessionCookieName) && !inmap(set, c.Name)
//@ loop 1 ghost nstale int init 0 step ite(!inmap(set, c.Name) && ret(isSessionCookieName), nstale + 1, nstale)
//@ loop 1 ghost ndel int init 0 step ite(called(http.SetCookie#1), ndel + 1, ndel)
//@ loop 1 invariant[one-deletion-per-stale-session-cookie] nstale == ndel
//@ at call http.SetCookie#1 assert[issues-that-deletion] arg(http.SetCookie#1, 1) == ret(makeCookie) && arg(http.SetCookie#1, 0) == rw
//@ ensures[error-sets-nothing] ret1(makeSessionCookie) != nil ==> ret0 != nil && !called(http.SetCookie)

//@ func NewCookieSessionStore
//@ prop C02 C09 C18
//@ ensures[store-uses-the-given-cookie-options-and-a-cipher-from-its-secret] ret1 == nil ==> ret1(NewCFBCipher) == nil
//@     && bytes(arg(NewCFBCipher, 0)) == bytes(ret(SecretBytes)) && arg(SecretBytes, 0) == cookieOpts.Secret
//@ ensures[cipher-error-is-an-error] ret1(NewCFBCipher) != nil ==> ret1 != nil && ret0 == nil
//@ prop C19 C02
//@ ensures[nonnil:a-store-or-an-error] ret1 == nil ==> ret0 != nil
//@ ensures[nonnil:store-has-its-options-and-cipher] ret1 == nil ==> typeis(ret0, "*SessionStore") && as(ret0, "*SessionStore").Cookie == cookieOpts
//@     && as(ret0, "*SessionStore").CookieCipher == ret0(NewCFBCipher) && ret0(NewCFBCipher) != nil
//@ prop C19
//@ scan[nonnil:cookie-store-allocated-by-its-constructor] alloc-of pkg/sessions/cookie.SessionStore pkg/sessions/cookie.NewCookieSessionStore pkg/sessions/cookie.init
