//go:build verif

package cookie

// Contracts for gcv (comment-only file; compiled only with -tags verif, and then to nothing).

//@ stable SessionStore.*
//@ nonnil SessionStore.Cookie SessionStore.CookieCipher

// ------------------------------------------------------------------ C01 / C02 / C09: load
//@ func (*SessionStore).Load
//@ prop C01 C02 C09
//@ at call DecodeSessionState assert[decode-only-validated-value] ret2(Validate) && arg(Validate, 0) == ret0(loadCookie)
//@     && ret1(loadCookie) == nil && arg(loadCookie, 1) == s.Cookie.Name && arg(Validate, 1) == s.Cookie.Secret
//@     && arg(Validate, 2) == s.Cookie.Expire && arg(DecodeSessionState, 0) == ret0(Validate)
//@     && arg(DecodeSessionState, 1) == s.CookieCipher
//@ ensures[session-only-via-decode] ret0 != nil ==> called(DecodeSessionState) && ret1(DecodeSessionState) == nil
//@     && ret0 == ret0(DecodeSessionState) && ret1 == nil
//@ ensures[error-means-no-session] ret1 != nil ==> ret0 == nil

// ------------------------------------------------------------------ C09 / C02 / C10: save
//@ func (*SessionStore).Save
//@ prop C09 C02 C10
//@ at call setSessionCookie assert[encoded-value-and-issue-time] ret1(cookieForSession) == nil
//@     && arg(setSessionCookie, 3) == ret0(cookieForSession) && arg(setSessionCookie, 4) == deref(ss.CreatedAt)
//@     && arg(cookieForSession, 1) == ss
//@ ensures[encode-error-no-cookie] ret1(cookieForSession) != nil ==> ret0 != nil && !called(setSessionCookie)

//@ func (*SessionStore).cookieForSession
//@ prop C02
//@ ensures[value-is-cipher-output] ret1 == nil ==> called(EncodeSessionState) && ret0 == ret0(EncodeSessionState)
//@ at call EncodeSessionState assert[encrypted-with-store-cipher] arg(EncodeSessionState, 1) == s.CookieCipher && arg(EncodeSessionState, 2)

//@ func (*SessionStore).makeSessionCookie
//@ prop C09 C02 C18
//@ at call SignedValue assert[signed-with-cookie-secret-name-and-time] arg(SignedValue, 0) == s.Cookie.Secret
//@     && arg(SignedValue, 1) == s.Cookie.Name && arg(SignedValue, 2) == value && arg(SignedValue, 3) == now
//@ at call makeCookie assert[name-and-lifetime] arg(makeCookie, 2) == s.Cookie.Name && arg(makeCookie, 4) == s.Cookie.Expire
//@     && (bytes(value) != "" ==> arg(makeCookie, 3) == ret0(SignedValue) && ret1(SignedValue) == nil)

//@ func (*SessionStore).makeCookie
//@ prop C18 C09
//@ ensures[single-constructor] ret0 == ret(MakeCookieFromOptions) && arg(MakeCookieFromOptions, 0) == req && arg(MakeCookieFromOptions, 1) == name
//@     && arg(MakeCookieFromOptions, 2) == value && arg(MakeCookieFromOptions, 3) == s.Cookie && arg(MakeCookieFromOptions, 4) == expiration

// ------------------------------------------------------------------ C11 / C18: clear
//@ func (*SessionStore).Clear
//@ prop C11 C18
//@ at call makeCookie assert[deletion-same-name-empty-expired] arg(makeCookie, 2) == c.Name && arg(makeCookie, 3) == ""
//@     && arg(makeCookie, 4) < 0 && ret(MatchString) && arg(MatchString, 1) == c.Name
//@ at call http.SetCookie assert[sets-the-deletion] arg(http.SetCookie, 1) == ret(makeCookie) && arg(http.SetCookie, 0) == rw
//@ ensures[never-fails] ret0 == nil
