//go:build verif

package persistence

// Contracts for gcv (comment-only file; compiled only with -tags verif, and then to nothing).

//@ stable Manager.*
//@ nonnil Manager.Store Manager.Options
//@ stable ticket.*
//@ nonnil ticket.options

// ------------------------------------------------------------------ C13 / C10: write path
//@ func (*Manager).Save
//@ prop C18 C10 C16
//@ at call decodeTicketFromRequest assert[the-ticket-of-this-request] arg(decodeTicketFromRequest, 0) == req && arg(decodeTicketFromRequest, 1) == m.Options
//@ at call setCookie assert[ticket-cookie-computed-for-this-request] arg(setCookie, 1) == rw && arg(setCookie, 2) == req && arg(setCookie, 3) == s
//@ prop C13 C10
//@ at call setCookie assert[cookie-only-after-persisted] called(saveSession) && ret(saveSession) == nil
//@     && arg(setCookie, 0) == arg(saveSession, 0) && arg(setCookie, 3) == s && arg(saveSession, 1) == s
//@ ensures[save-error-propagates] called(saveSession) && ret(saveSession) != nil ==> ret0 == ret(saveSession) && !called(setCookie)
//@ ensures[reuses-valid-ticket] ret1(decodeTicketFromRequest) == nil ==> called(saveSession)
//@     && arg(saveSession, 0) == ret0(decodeTicketFromRequest) && !called(newTicket)
//@ ensures[success-means-persisted-and-cookie] ret0 == nil ==> called(saveSession) && ret(saveSession) == nil && called(setCookie)

//@ func (*Manager).Save$1
//@ prop C13 C09
//@ ensures[store-write-passthrough] ret0 == ret(Save) && arg(Save, 1) == key && arg(Save, 2) == val && arg(Save, 3) == exp

//@ func (*ticket).saveSession
//@ prop C13 C09 C02
//@ at call saver assert[stores-ciphertext-under-ticket-id-with-lifetime] arg(saver, 0) == t.id && arg(saver, 2) == t.options.Expire
//@     && arg(saver, 1) == ret0(EncodeSessionState) && ret1(EncodeSessionState) == nil && arg(EncodeSessionState, 0) == s
//@     && arg(EncodeSessionState, 1) == ret0(makeCipher)
//@ ensures[result-is-store-result] ret0 == nil ==> called(saver) && ret(saver) == nil

// ------------------------------------------------------------------ C13 / C01 / C02: read path
//@ func (*Manager).Load
//@ prop C10 C01
//@ at call decodeTicketFromRequest assert[the-ticket-of-this-request] arg(decodeTicketFromRequest, 0) == req && arg(decodeTicketFromRequest, 1) == m.Options
//@ prop C13 C01 C02
//@ ensures[no-valid-ticket-no-session] ret1(decodeTicketFromRequest) != nil ==> ret1 != nil && ret0 == nil && !called(loadSession)
//@ ensures[session-from-ticket-load] ret1(decodeTicketFromRequest) == nil ==> called(loadSession)
//@     && arg(loadSession, 0) == ret0(decodeTicketFromRequest) && ret0 == ret0(loadSession) && ret1 == ret1(loadSession)

//@ func (*Manager).Load$1
//@ prop C13
//@ ensures[store-read-passthrough] ret0 == ret0(Load) && ret1 == ret1(Load) && arg(Load, 1) == key

//@ func (*ticket).makeCipher
//@ prop C13 C19 C02
//@ ensures[a-cipher-or-an-error] (ret1 == nil ==> ret0 != nil) && (ret1 != nil ==> ret0 == nil)
//@ ensures[the-gcm-cipher-of-the-secret] ret1 == nil ==> ret0 == ret0(NewGCMCipher) && ret1(NewGCMCipher) == nil
//@ at call NewGCMCipher assert[keyed-with-the-tickets-secret] arg(NewGCMCipher, 0) == t.secret

//@ func (*ticket).loadSession
//@ safety
//@ prop C13 C01 C02 C12 C19
//@ ensures[a-stored-value-that-does-not-decode-is-an-error] called(DecodeSessionState) && ret1(DecodeSessionState) != nil ==> ret1 != nil && ret0 == nil
//@     && !called(initLock)
//@ ensures[loader-error-is-error] ret1(loader) != nil ==> ret1 != nil && ret0 == nil
//@ ensures[session-only-from-authenticated-decode] ret0 != nil ==> ret1(loader) == nil && called(DecodeSessionState)
//@     && ret1(DecodeSessionState) == nil && ret0 == ret0(DecodeSessionState) && arg(DecodeSessionState, 0) == ret0(loader)
//@     && arg(DecodeSessionState, 1) == ret0(makeCipher) && arg(loader, 0) == t.id
//@ ensures[error-means-no-session] ret1 != nil ==> ret0 == nil
//@ ensures[loaded-session-carries-the-stores-lock-for-its-ticket] ret0 != nil ==> called(initLock) && ret0.Lock == ret(initLock) && arg(initLock, 0) == t.id

//@ func decodeTicketFromRequest
//@ prop C02 C09 C13
//@ at call decodeTicket assert[ticket-only-from-validated-cookie] called(Validate) && ret2(Validate) && arg(Validate, 0) == ret0(Cookie)
//@     && ret1(Cookie) == nil && arg(Cookie, 1) == cookieOpts.Name && arg(Validate, 1) == cookieOpts.Secret
//@     && arg(Validate, 2) == cookieOpts.Expire && arg(decodeTicket, 0) == bytes(ret0(Validate))
//@ ensures[ticket-only-via-decode] ret0 != nil ==> called(decodeTicket) && ret0 == ret0(decodeTicket)
//@ ensures[no-cookie-error-unwrapped] ret1(Cookie) != nil ==> ret1 == ret1(Cookie) && ret0 == nil

// ------------------------------------------------------------------ C11 / C13: delete path
//@ func (*Manager).Clear
//@ prop C18 C11 C16
//@ at call decodeTicketFromRequest assert[the-ticket-of-this-request] arg(decodeTicketFromRequest, 0) == req && arg(decodeTicketFromRequest, 1) == m.Options
//@ at call clearCookie#0 assert[deletion-cookie-computed-for-this-request] arg(clearCookie#0, 1) == rw && arg(clearCookie#0, 2) == req
//@     && recv(clearCookie#0).options == m.Options
//@ at call clearCookie#1 assert[deletion-cookie-computed-for-this-request-too] arg(clearCookie#1, 1) == rw && arg(clearCookie#1, 2) == req
//@ prop C11 C13 C10
//@ ensures[cookie-always-cleared] called(clearCookie)
//@ ensures[stored-session-removed-or-error] ret1(decodeTicketFromRequest) == nil ==> called(clearSession)
//@     && arg(clearSession, 0) == ret0(decodeTicketFromRequest) && ret0 == ret(clearSession)
//@ ensures[undecodable-ticket] ret1(decodeTicketFromRequest) != nil ==> !called(clearSession)
//@     && (ret0 == nil <==> ret1(decodeTicketFromRequest) == http.ErrNoCookie)

//@ func (*Manager).Clear$1
//@ prop C11 C13
//@ ensures[store-delete-passthrough] ret0 == ret(Clear) && arg(Clear, 1) == key

//@ func (*ticket).clearSession
//@ prop C11 C13
//@ ensures[deletes-ticket-id] ret0 == ret(clearer) && arg(clearer, 0) == t.id

//@ func (*Manager).VerifyConnection
//@ prop C13
//@ ensures[ping-passthrough] ret0 == ret(VerifyConnection)

// ------------------------------------------------------------------ C09 / C18: the ticket cookie
//@ func (*ticket).setCookie
//@ prop C09 C13 C18
//@ at call makeCookie assert[lifetime-and-issue-time] arg(makeCookie, 3) == t.options.Expire && arg(makeCookie, 4) == deref(s.CreatedAt)
//@ at call http.SetCookie assert[only-on-success] ret1(makeCookie) == nil && arg(http.SetCookie, 1) == ret0(makeCookie)

//@ func (*ticket).makeCookie
//@ prop C09 C02 C18
//@ at call SignedValue assert[signed-with-cookie-secret-name-and-time] arg(SignedValue, 0) == t.options.Secret
//@     && arg(SignedValue, 1) == t.options.Name && arg(SignedValue, 3) == now
//@ at call MakeCookieFromOptions assert[same-name-and-lifetime] arg(MakeCookieFromOptions, 1) == t.options.Name
//@     && arg(MakeCookieFromOptions, 3) == t.options && arg(MakeCookieFromOptions, 4) == expires
//@ ensures[value-is-signed] value != "" && ret1 == nil ==> arg(MakeCookieFromOptions, 2) == ret0(SignedValue) && ret1(SignedValue) == nil

//@ func (*ticket).clearCookie
//@ prop C11 C18
//@ at call MakeCookieFromOptions assert[deletion-same-name-and-options] arg(MakeCookieFromOptions, 1) == t.options.Name
//@     && arg(MakeCookieFromOptions, 2) == "" && arg(MakeCookieFromOptions, 3) == t.options && arg(MakeCookieFromOptions, 4) < 0
//@ at call http.SetCookie assert[sets-the-deletion] arg(http.SetCookie, 1) == ret(MakeCookieFromOptions)

//@ func NewManager
//@ prop C13 C09 C19
//@ ensures[manager-wraps-the-given-store-and-options] result != nil && result.Store == store && result.Options == cookieOpts

// ------------------------------------------------------------------ C19: `nonnil` ticket/manager fields are established where the objects are made
//@ func newTicket
//@ prop C19 C02
//@ ensures[nonnil:ticket-carries-the-cookie-options] ret1 == nil ==> ret0 != nil && ret0.options == cookieOpts
//@ ensures[random-id-and-random-secret-read-separately] ret1 == nil ==> called(io.ReadFull#0) && called(io.ReadFull#1)
//@     && ret1(io.ReadFull#0) == nil && ret1(io.ReadFull#1) == nil && ret0.secret == arg(io.ReadFull#1, 1) && len(ret0.secret) == 16
//@     && arg(io.ReadFull#0, 1) != arg(io.ReadFull#1, 1)

//@ func decodeTicket
//@ prop C19
//@ ensures[nonnil:ticket-carries-the-cookie-options] ret1 == nil ==> ret0 != nil && ret0.options == cookieOpts

//@ prop C19
//@ scan[nonnil:tickets-allocated-by-these-functions] alloc-of pkg/sessions/persistence.ticket pkg/sessions/persistence.newTicket pkg/sessions/persistence.decodeTicket pkg/sessions/persistence.(*Manager).Clear
//@ scan[nonnil:manager-allocated-by-its-constructor] alloc-of pkg/sessions/persistence.Manager pkg/sessions/persistence.NewManager
