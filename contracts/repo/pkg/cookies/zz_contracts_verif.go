//go:build verif

package cookies

// Contracts for gcv (comment-only file; compiled only with -tags verif, and then to nothing).

//@ stable csrf.cookieOpts csrf.time
//@ nonnil csrf.cookieOpts

// sortedByLenDesc: validateCookie sorts Cookie.Domains longest first (pkg/validation, verified there).
//@ define sortedByLenDesc(d []string) bool = forall i int, j int :: 0 <= i && i < j && j < len(d) ==> len(d[i]) >= len(d[j])

// ------------------------------------------------------------------ C18 / C09: the single cookie constructor
//@ func MakeCookieFromOptions
//@ safety
//@ prop C18 C09
//@ requires[config:samesite-validated] opts.SameSite == "" || opts.SameSite == "lax" || opts.SameSite == "strict" || opts.SameSite == "none"
//@ ensures[attributes] result != nil && result.Name == name && result.Value == value && result.Path == opts.Path
//@     && result.HttpOnly == opts.HTTPOnly && result.Secure == opts.Secure && result.SameSite == ret(ParseSameSite)
//@     && arg(ParseSameSite, 0) == opts.SameSite
//@ ensures[domain-rule] result.Domain == ite(ret(GetCookieDomain) != "", ret(GetCookieDomain),
//@     ite(len(opts.Domains) > 0, opts.Domains[len(opts.Domains) - 1], ""))
//@     && arg(GetCookieDomain, 0) == req && arg(GetCookieDomain, 1) == opts.Domains
//@ ensures[max-age] (expiration > 0 ==> result.MaxAge == expiration / 1000000000) && (expiration < 0 ==> result.MaxAge == -1)
//@     && (expiration == 0 ==> result.MaxAge == 0)

//@ func GetCookieDomain
//@ safety
//@ nomod
//@ prop C18
//@ requires[config:domains-sorted-longest-first] sortedByLenDesc(cookieDomains)
//@ loop 0 invariant[no-earlier-match] rangeindex >= -1 && forall j int :: 0 <= j && j <= rangeindex ==> !HasSuffix(host, cookieDomains[j])
//@ ensures[is-a-matching-configured-domain] result != "" ==> HasSuffix(ret(GetRequestHost), result)
//@     && exists k int :: 0 <= k && k < len(cookieDomains) && cookieDomains[k] == result
//@ ensures[longest-match] result != "" ==> forall j int :: 0 <= j && j < len(cookieDomains) && HasSuffix(ret(GetRequestHost), cookieDomains[j])
//@     ==> len(cookieDomains[j]) <= len(result)
//@ ensures[none-matches] result == "" ==> forall j int :: 0 <= j && j < len(cookieDomains) ==>
//@     !HasSuffix(ret(GetRequestHost), cookieDomains[j]) || cookieDomains[j] == ""

//@ func ParseSameSite
//@ safety
//@ nomod
//@ prop C18
//@ requires[config:samesite-validated] v == "" || v == "lax" || v == "strict" || v == "none"
//@ ensures[table] (v == "lax" ==> result == 2) && (v == "strict" ==> result == 3) && (v == "none" ==> result == 4) && (v == "" ==> result == 0)

//@ func warnInvalidDomain
//@ nomod
