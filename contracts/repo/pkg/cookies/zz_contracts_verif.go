//go:build verif

package cookies

// Contracts for gcv (comment-only file; compiled only with -tags verif, and then to nothing).

//@ stable csrf.cookieOpts csrf.time
//@ nonnil csrf.cookieOpts

// sortedByLenDesc: validateCookie sorts Cookie.Domains longest first (pkg/validation, verified there).
//@ define sortedByLenDesc(d []string) bool = forall i int, j int :: 0 <= i && i < j && j < len(d) ==> len(d[i]) >= len(d[j])

// ------------------------------------------------------------------ C18 / C09: the single cookie constructor
//@ func MakeCookieFromOptions
//@ safety
//@ nomod
//@ fresh
//@ prop C18 C09
//@ requires[config:samesite-validated] opts.SameSite == "" || opts.SameSite == "lax" || opts.SameSite == "strict" || opts.SameSite == "none"
//@ ensures[attributes] result != nil && result.Name == name && result.Value == value && result.Path == opts.Path
//@     && result.HttpOnly == opts.HTTPOnly && result.Secure == opts.Secure
//@ ensures[same-site-from-the-option] result.SameSite == ret(ParseSameSite) && arg(ParseSameSite, 0) == opts.SameSite
//@ ensures[domain-rule] result.Domain == ite(ret(GetCookieDomain) != "", ret(GetCookieDomain),
//@     ite(len(opts.Domains) > 0, opts.Domains[len(opts.Domains) - 1], ""))
//@     && arg(GetCookieDomain, 0) == req && arg(GetCookieDomain, 1) == opts.Domains
//@ ensures[max-age] (expiration > 0 ==> result.MaxAge == expiration / 1000000000) && (expiration < 0 ==> result.MaxAge == -1)
//@     && (expiration == 0 ==> result.MaxAge == 0)

//@ func GetCookieDomain
//@ safety
//@ nomod
//@ prop C18
//@ requires[config:domains-sorted-longest-first] sortedByLenDesc(cookieDomains)
//@ loop 0 invariant[no-earlier-match] rangeindex >= -1 && forall j int :: 0 <= j && j <= rangeindex ==> !HasSuffix(host, cookieDomains[j])
//@ ensures[is-a-matching-configured-domain] result != "" ==> HasSuffix(ret(GetRequestHost), result)
//@     && exists k int :: 0 <= k && k < len(cookieDomains) && cookieDomains[k] == result
//@ ensures[longest-match] result != "" ==> forall j int :: 0 <= j && j < len(cookieDomains) && HasSuffix(ret(GetRequestHost), cookieDomains[j])
//@     ==> len(cookieDomains[j]) <= len(result)
//@ ensures[none-matches] result == "" ==> forall j int :: 0 <= j && j < len(cookieDomains) ==>
//@     !HasSuffix(ret(GetRequestHost), cookieDomains[j]) || cookieDomains[j] == ""

//@ func ParseSameSite
//@ safety
//@ nomod
//@ prop C18
//@ requires[config:samesite-validated] v == "" || v == "lax" || v == "strict" || v == "none"
//@ ensures[table] (v == "lax" ==> result == 2) && (v == "strict" ==> result == 3) && (v == "none" ==> result == 4) && (v == "" ==> result == 0)

//@ func warnInvalidDomain
//@ nomod

// ------------------------------------------------------------------ C03 / C05: the CSRF cookie
//@ func (*csrf).HashOAuthState
//@ nomod
//@ prop C03
//@ ensures[hash-of-state-nonce] result == ite(c.OAuthState == nil, "", hashOf(bytes(c.OAuthState)))

//@ func (*csrf).HashOIDCNonce
//@ nomod
//@ prop C05
//@ ensures[hash-of-oidc-nonce] result == ite(c.OIDCNonce == nil, "", hashOf(bytes(c.OIDCNonce)))

//@ func (*csrf).CheckOAuthState
//@ nomod
//@ prop C03
//@ ensures[state-matches-hash-of-cookie-nonce] result <==> ite(c.OAuthState == nil, "", hashOf(bytes(c.OAuthState))) == hashed

//@ func (*csrf).CheckOIDCNonce
//@ nomod
//@ prop C05
//@ ensures[nonce-matches-hash-of-cookie-nonce] result <==> ite(c.OIDCNonce == nil, "", hashOf(bytes(c.OIDCNonce))) == hashed

//@ func (*csrf).GetCodeVerifier
//@ nomod
//@ prop C05
//@ ensures[the-cookies-verifier] result == c.CodeVerifier

//@ func (*csrf).SetSessionNonce
//@ prop C05
//@ modifies SessionState.Nonce
//@ ensures[session-gets-this-logins-nonce] s.Nonce == c.OIDCNonce

//@ func LoadCSRFCookie
//@ prop C03 C05
//@ at call decodeCSRFCookie assert[only-the-cookie-named-for-this-state] cookie.Name == cookieName && arg(decodeCSRFCookie, 0) == cookie
//@     && arg(decodeCSRFCookie, 1) == opts
//@ ensures[csrf-only-from-validated-cookie] ret1 == nil ==> called(decodeCSRFCookie) && ret1(decodeCSRFCookie) == nil
//@     && ret0 == ret0(decodeCSRFCookie) && ret0 != nil
//@ ensures[error-means-none] ret1 != nil ==> ret0 == nil

//@ func decodeCSRFCookie
//@ prop C03 C02 C09
//@ ensures[only-validated] ret1 == nil ==> ret2(Validate) && arg(Validate, 0) == cookie && arg(Validate, 1) == opts.Secret
//@     && arg(Validate, 2) == opts.Expire
//@ ensures[non-nil-on-success] ret1 == nil ==> ret0 != nil
//@ prop C19
//@ ensures[nonnil:csrf-carries-the-cookie-options] ret1 == nil ==> ret0.cookieOpts == opts
//@ prop C03 C02 C09
//@ at call decrypt assert[decrypts-the-validated-value] ret2(Validate) && arg(decrypt, 0) == ret0(Validate)
//@ at call msgpack.Unmarshal assert[decodes-the-decrypted-value] ret1(decrypt) == nil && arg(msgpack.Unmarshal, 0) == ret0(decrypt)

//@ func (*csrf).SetCookie
//@ prop C03 C05 C18 C02
//@ at call MakeCookieFromOptions assert[signed-encrypted-value-own-name] ret1(encodeCookie) == nil && arg(MakeCookieFromOptions, 2) == ret0(encodeCookie)
//@     && arg(MakeCookieFromOptions, 1) == ret(cookieName) && arg(MakeCookieFromOptions, 3) == c.cookieOpts
//@     && arg(MakeCookieFromOptions, 4) == c.cookieOpts.CSRFExpire
//@ at call http.SetCookie assert[sets-that-cookie] arg(http.SetCookie, 1) == ret(MakeCookieFromOptions)
//@ ensures[encode-error-no-cookie] ret1(encodeCookie) != nil ==> ret1 != nil && !called(http.SetCookie)

//@ func (*csrf).ClearCookie
//@ prop C18 C03
//@ at call MakeCookieFromOptions assert[deletion-same-name-and-options] arg(MakeCookieFromOptions, 1) == ret(cookieName)
//@     && arg(MakeCookieFromOptions, 2) == "" && arg(MakeCookieFromOptions, 3) == c.cookieOpts && arg(MakeCookieFromOptions, 4) < 0
//@ at call http.SetCookie assert[sets-the-deletion] arg(http.SetCookie, 1) == ret(MakeCookieFromOptions)

//@ func (*csrf).encodeCookie
//@ prop C02 C05
//@ at call SignedValue assert[signs-ciphertext-not-plaintext] ret1(encrypt) == nil && arg(SignedValue, 2) == ret0(encrypt)
//@     && arg(SignedValue, 0) == c.cookieOpts.Secret && arg(SignedValue, 1) == ret(cookieName)
//@ at call encrypt assert[encrypts-the-packed-csrf] ret1(msgpack.Marshal) == nil && arg(encrypt, 0) == ret0(msgpack.Marshal)
//@     && arg(encrypt, 1) == c.cookieOpts
//@ ensures[value-is-signed-ciphertext] ret1 == nil ==> called(SignedValue) && ret0 == ret0(SignedValue)

//@ func ExtractStateSubstring
//@ safety
//@ nomod
//@ prop C03 C19
//@ ensures[first-eight] (len(state) >= 8 ==> result == state[0:8]) && (len(state) < 8 ==> result == "")

//@ func csrfCookieName
//@ nomod
//@ prop C03
//@ ensures[name-format] result == ite(stateSubstring == "", opts.Name + "_csrf", opts.Name + "_" + stateSubstring + "_csrf")

//@ func GenerateCookieName
//@ nomod
//@ prop C03
//@ ensures[name-from-state] result == ite(opts.CSRFPerRequest && len(state) >= 8, opts.Name + "_" + state[0:8] + "_csrf", opts.Name + "_csrf")

//@ func NewCSRF
//@ prop C19
//@ ensures[nonnil:csrf-carries-the-cookie-options] ret1 == nil ==> typeis(ret0, "*csrf") && as(ret0, "*csrf").cookieOpts == opts
//@ scan[nonnil:csrf-allocated-by-these-functions] alloc-of pkg/cookies.csrf pkg/cookies.NewCSRF pkg/cookies.decodeCSRFCookie
//@ prop C05 C03
//@ ensures[fresh-32-byte-nonces-and-verifier] ret1 == nil ==> ret0 != nil && arg(Nonce#0, 0) == 32 && arg(Nonce#1, 0) == 32
//@     && ret1(Nonce#0) == nil && ret1(Nonce#1) == nil

// ------------------------------------------------------------------ C18: every Set-Cookie value comes from the single constructor
//@ prop C18
//@ scan[set-cookie-values-from-constructor] cookie-constructor pkg/cookies.MakeCookieFromOptions pkg/sessions/cookie.(*SessionStore).makeCookie pkg/sessions/persistence.(*ticket).makeCookie pkg/sessions/cookie.(*SessionStore).makeSessionCookie pkg/sessions/cookie.copyCookie pkg/sessions/cookie.splitCookie
//@ scan[cookie-literals] alloc-of net/http.Cookie pkg/cookies.MakeCookieFromOptions pkg/sessions/cookie.copyCookie pkg/validation.validateCookieName

// the longest-first order validation gives Cookie.Domains (requires[config:domains-sorted-longest-first] of GetCookieDomain)
// survives until request handling: nothing outside validation reorders, overwrites or appends to that slice
//@ prop C18
//@ scan[cookie-domains-frozen-after-validation] slice-field-frozen Cookie.Domains pkg/validation.validateCookie pkg/validation.validateCookie$1

// `stable csrf.time`: the clock field is never assigned after NewCSRF's literal; encodeCookie calls the clock's Now through the
// field's address (clock.Clock has pointer-receiver methods) and only reads it
//@ prop C03 C05 C09 C18 C19
//@ scan[stable:csrf-clock-only-read] field-writers csrf.time pkg/cookies.NewCSRF pkg/cookies.decodeCSRFCookie pkg/cookies.(*csrf).encodeCookie


// ------------------------------------------------------------------ C02 / C03: the CSRF cookie's payload is encrypted and decrypted with a cipher keyed by the configured cookie secret
//@ func makeCipher
//@ prop C02 C03
//@ ensures[cipher-keyed-by-the-cookie-secret] ret0 == ret0(NewCFBCipher) && ret1 == ret1(NewCFBCipher) && arg(NewCFBCipher, 0) == ret(SecretBytes)
//@     && arg(SecretBytes, 0) == opts.Secret

//@ func encrypt
//@ prop C02 C03
//@ ensures[no-cipher-no-ciphertext] called(makeCipher) && ret1(makeCipher) != nil ==> ret1 != nil && ret0 == nil
//@ ensures[the-ciphers-encryption-of-the-data] ret1(makeCipher) == nil ==> called(Encrypt) && ret0 == ret0(Encrypt) && ret1 == ret1(Encrypt)
//@     && arg(Encrypt, 0) == data && arg(makeCipher, 0) == opts

//@ func decrypt
//@ prop C02 C03
//@ ensures[no-cipher-no-plaintext] called(makeCipher) && ret1(makeCipher) != nil ==> ret1 != nil && ret0 == nil
//@ ensures[the-ciphers-decryption-of-the-data] ret1(makeCipher) == nil ==> called(Decrypt) && ret0 == ret0(Decrypt) && ret1 == ret1(Decrypt)
//@     && arg(Decrypt, 0) == data && arg(makeCipher, 0) == opts
