//go:build verif

package upstream

// Contracts for gcv (comment-only file; compiled only with -tags verif, and then to nothing).

//@ stable httpUpstreamProxy.* multiUpstreamProxy.*
//@ nonnil multiUpstreamProxy.serveMux httpUpstreamProxy.handler

// ------------------------------------------------------------------ C17: registration order
// upLess: the order the statement asks for on (is-rewrite-rule, path length): rewrite rules first, longer paths first.
//@ define upLess(ri bool, li int, rj bool, lj int) bool = ite(ri && rj, li > lj, ite(ri, true, ite(rj, false, li > lj)))

//@ prop C17
//@ lemma[order-irreflexive] forall r bool, l int :: !upLess(r, l, r, l)
//@ lemma[order-asymmetric] forall ri bool, li int, rj bool, lj int :: upLess(ri, li, rj, lj) ==> !upLess(rj, lj, ri, li)
//@ lemma[order-transitive] forall ra bool, la int, rb bool, lb int, rc bool, lc int ::
//@     upLess(ra, la, rb, lb) && upLess(rb, lb, rc, lc) ==> upLess(ra, la, rc, lc)
//@ lemma[order-incomparability-transitive] forall ra bool, la int, rb bool, lb int, rc bool, lc int ::
//@     !upLess(ra, la, rb, lb) && !upLess(rb, lb, ra, la) && !upLess(rb, lb, rc, lc) && !upLess(rc, lc, rb, lb)
//@     ==> !upLess(ra, la, rc, lc) && !upLess(rc, lc, ra, la)
//@ lemma[order-is-rewrite-first-then-longest] forall ri bool, li int, rj bool, lj int ::
//@     upLess(ri, li, rj, lj) <==> (ri && !rj) || (ri == rj && li > lj)

//@ func sortByPathLongest$1
//@ safety
//@ nomod
//@ prop C17
//@ requires[config:sort-slice-passes-valid-indices] 0 <= i && i < len(in) && 0 <= j && j < len(in)
//@ ensures[comparator-is-the-order] result <==> upLess(in[i].RewriteTarget != "", len(in[i].Path), in[j].RewriteTarget != "", len(in[j].Path))

//@ func sortByPathLongest
//@ prop C17
//@ ensures[sorts-in-place-with-the-comparator] called(sort.Slice) && result == in

//@ func NewProxy
//@ prop C17
//@ at call registerStaticResponseHandler assert[static-upstream-registered-in-sorted-order] arg(registerStaticResponseHandler, 1) == upstream
//@     && upstream == ret(sortByPathLongest)[rangeindex + 1] && upstream.Static
//@ at call registerFileServer assert[file-upstream-registered-in-sorted-order] arg(registerFileServer, 1) == upstream
//@     && upstream == ret(sortByPathLongest)[rangeindex + 1] && !upstream.Static && ret1(url.Parse) == nil
//@     && arg(url.Parse, 0) == upstream.URI && arg(registerFileServer, 2) == ret0(url.Parse)
//@ at call registerHTTPUpstreamProxy assert[http-upstream-registered-in-sorted-order] arg(registerHTTPUpstreamProxy, 1) == upstream
//@     && upstream == ret(sortByPathLongest)[rangeindex + 1] && !upstream.Static && ret1(url.Parse) == nil
//@     && arg(url.Parse, 0) == upstream.URI && arg(registerHTTPUpstreamProxy, 2) == ret0(url.Parse)
//@ ensures[sorted-input] arg(sortByPathLongest, 0) == upstreams.Upstreams
//@ at call sortByPathLongest assert[raw-path-matching-is-switched-on-before-any-route-exists] upstreams.ProxyRawPath <==> called(UseEncodedPath)
//@ at call UseEncodedPath assert[on-this-proxys-router] recv(UseEncodedPath) == m.serveMux
//@ ensures[trailing-slash-handler-last] ret1 == nil ==> called(registerTrailingSlashHandler)
//@ ensures[error-means-no-proxy] ret1 != nil ==> ret0 == nil
//@ prop C17 C19
//@ ensures[no-error-means-a-proxy] ret1 == nil ==> ret0 != nil
//@ at call registerTrailingSlashHandler assert[nonnil:router-is-set] m.serveMux != nil && m.serveMux == ret(mux.NewRouter)

//@ func (*multiUpstreamProxy).registerHandler
//@ prop C17
//@ ensures[simple-or-rewrite] (upstream.RewriteTarget == "" ==> called(registerSimpleHandler) && arg(registerSimpleHandler, 1) == upstream.Path
//@     && arg(registerSimpleHandler, 2) == handler && !called(registerRewriteHandler))
//@     && (upstream.RewriteTarget != "" ==> called(registerRewriteHandler) && arg(registerRewriteHandler, 1) == upstream
//@     && arg(registerRewriteHandler, 2) == handler && !called(registerSimpleHandler))

//@ func (*multiUpstreamProxy).registerSimpleHandler
//@ prop C17
//@ ensures[prefix-for-trailing-slash-exact-otherwise] (HasSuffix(path, "/") ==> called(PathPrefix) && arg(PathPrefix, 1) == path && !called(Path))
//@     && (!HasSuffix(path, "/") ==> called(Path) && arg(Path, 1) == path && !called(PathPrefix))
//@ at call Handler assert[registers-the-given-handler] arg(Handler, 1) == handler

//@ func (*multiUpstreamProxy).registerRewriteHandler$1
//@ nomod
//@ prop C17
//@ ensures[rule-matches-on-request-path] result == ret(MatchString) && arg(MatchString, 1) == req.URL.Path && arg(MatchString, 0) == rewriteRegExp

// ------------------------------------------------------------------ C17: what reaches the upstream
//@ func rewritePath$1
//@ prop C17
//@ at call ServeHTTP assert[forward-only-well-formed-rewrites] ret1(url.ParseRequestURI) == nil && arg(url.ParseRequestURI, 0) == old(req.RequestURI)
//@     && arg(ReplaceAllString, 2) == rewriteTarget && arg(ReplaceAllString, 0) == rewriteRegExp
//@     && arg(splitPathAndQuery, 1) == ret(ReplaceAllString) && ret2(splitPathAndQuery) == nil
//@     && req.RequestURI == ret(String) && req.URL.Path == ret0(splitPathAndQuery) && arg(ServeHTTP, 1) == req
//@ at call ReplaceAllString assert[rewrites-the-request-path] arg(ReplaceAllString, 1) == ret0(url.ParseRequestURI).Path
//@ ensures[unparsable-request-gets-error-page] ret1(url.ParseRequestURI) != nil ==> called(WriteErrorPage) && !called(ServeHTTP)

//@ func setProxyDirector$1
//@ prop C17
//@ ensures[request-line-is-the-clients-bytes] called(director) && req.URL.Opaque == req.RequestURI && req.URL.RawQuery == "" && !req.URL.ForceQuery
//@ at call director assert[stock-director-first] arg(director, 0) == req

//@ func setProxyUpstreamHostHeader$1
//@ prop C17
//@ ensures[host-is-the-upstreams] called(director) && req.Host == target.Host

//@ func (*httpUpstreamProxy).ServeHTTP
//@ prop C17 C07
//@ at call ServeHTTP#0 assert[websocket-only-on-upgrade] h.wsHandler != nil && recv(ServeHTTP#0) == h.wsHandler
//@     && strings.EqualFold(ret(Get#1), "upgrade") && ret(Get#2) == "websocket" && arg(ServeHTTP#0, 1) == req
//@ at call ServeHTTP#1 assert[plain-proxy-otherwise] recv(ServeHTTP#1) == h.handler && arg(ServeHTTP#1, 1) == req
//@ ensures[exactly-one-upstream-handler] called(ServeHTTP#0) != called(ServeHTTP#1)
//@ at call Set assert[only-gap-auth-and-only-when-signing] h.auth != nil && arg(Set, 1) == "GAP-Auth"

//@ func splitPathAndQuery
//@ safety
//@ prop C17
//@ at call Add assert[rule-query-values-are-added-to-the-clients-query] arg(Add, 0) == originalQuery && arg(Add, 1) == key && arg(Add, 2) == value
//@ ensures[client-query-values-are-never-replaced-or-removed] !called(Set) && !called(Del)
//@ ensures[path-is-the-part-before-the-question-mark] ret2 == nil && ret0 == strings.SplitN(raw, "?", 2)[0]
//@     || (called(url.ParseQuery) && ret1(url.ParseQuery) != nil)
//@ at call Encode assert[query-is-the-encoded-merged-client-query] arg(Encode, 0) == originalQuery

// ------------------------------------------------------------------ C19: `nonnil` upstream fields are established by the constructors
//@ func newHTTPUpstreamProxy
//@ prop C19 C17
//@ ensures[nonnil:upstream-has-its-reverse-proxy] result != nil && typeis(result, "*httpUpstreamProxy") && as(result, "*httpUpstreamProxy").handler == ret(newReverseProxy)
//@     && ret(newReverseProxy) != nil
//@ prop C17
//@ at call newReverseProxy assert[requests-start-at-the-upstreams-root] (arg(newReverseProxy, 0).Scheme != "unix" ==> arg(newReverseProxy, 0).Path == "")
//@     && arg(newReverseProxy, 0).Scheme == old(u.Scheme) && arg(newReverseProxy, 0).Host == old(u.Host) && arg(newReverseProxy, 1) == upstream
//@ at call newWebSocketReverseProxy assert[websocket-requests-go-to-the-very-same-target] arg(newWebSocketReverseProxy, 0) == arg(newReverseProxy, 0)
//@     && arg(newWebSocketReverseProxy, 1) == upstream.InsecureSkipTLSVerify
//@ at call newWebSocketReverseProxy assert[websocket-proxy-only-unless-switched-off] upstream.ProxyWebSockets == nil || deref(upstream.ProxyWebSockets)
//@ prop C19
//@ scan[nonnil:http-upstreams-allocated-by-the-constructor] alloc-of pkg/upstream.httpUpstreamProxy pkg/upstream.newHTTPUpstreamProxy
//@ scan[nonnil:multi-upstream-allocated-by-the-constructor] alloc-of pkg/upstream.multiUpstreamProxy pkg/upstream.NewProxy

//@ func newReverseProxy
//@ shallow
//@ prop C19 C17
//@ ensures[nonnil:a-reverse-proxy] result != nil
//@ ensures[single-host-proxy-to-the-target] result == ret(httputil.NewSingleHostReverseProxy) && arg(httputil.NewSingleHostReverseProxy, 0) == target

// ------------------------------------------------------------------ C19 / C17: a static upstream answers with the configured status code, which
// validation confined to what net/http accepts (WriteHeader panics outside 100..999); 200 when none is configured
//@ stable staticResponseHandler.*
//@ func newStaticResponseHandler
//@ safety
//@ nilable code
//@ prop C19 C17
//@ ensures[the-configured-code-or-200] typeis(result, "*staticResponseHandler") && as(result, "*staticResponseHandler").upstream == upstream
//@     && as(result, "*staticResponseHandler").code == ite(code == nil, 200, old(deref(code)))

//@ func derefStaticCode
//@ safety
//@ nomod
//@ nilable code
//@ prop C19 C17
//@ ensures[the-configured-code-or-200] result == ite(code == nil, 200, deref(code))

//@ func (*staticResponseHandler).ServeHTTP
//@ prop C19 C17
//@ requires[config:static-code-is-a-status-code] 100 <= s.code && s.code <= 999
//@ at call WriteHeader assert[answers-with-the-configured-code] arg(WriteHeader, 0) == s.code


// ------------------------------------------------------------------ C17: the file upstream serves the request it was given, from the configured directory,
// with the prefix handling the operator configured
//@ nonnil fileServer.handler
//@ stable fileServer.*
//@ prop C17 C19
//@ scan[file-server-fields-written-by-its-constructor] field-writers fileServer.* pkg/upstream.newFileServer
//@ scan[nonnil:file-servers-allocated-by-the-constructor] alloc-of pkg/upstream.fileServer pkg/upstream.newFileServer

//@ func (*fileServer).ServeHTTP
//@ prop C17
//@ at call ServeHTTP assert[the-file-handler-gets-request-and-writer-unchanged] recv(ServeHTTP) == u.handler && arg(ServeHTTP, 0) == rw
//@     && arg(ServeHTTP, 1) == req
//@ ensures[always-served] called(ServeHTTP)

//@ func newFileServer
//@ prop C17 C19
//@ at call StripPrefix assert[without-rewrite-the-configured-path-prefix-is-stripped] upstream.RewriteTarget == "" && arg(StripPrefix, 0) == upstream.Path
//@     && arg(StripPrefix, 1) == ret(newFileServerForPath)
//@ at call requestURIToURL assert[with-rewrite-the-rewritten-request-uri-decides] upstream.RewriteTarget != "" && arg(requestURIToURL, 0) == ret(newFileServerForPath)
//@ at call newFileServerForPath assert[files-from-the-configured-directory] arg(newFileServerForPath, 0) == fileSystemPath
//@ ensures[nonnil:a-file-server-with-a-handler] result != nil && typeis(result, "*fileServer") && as(result, "*fileServer").handler != nil
//@     && as(result, "*fileServer").upstream == upstream.ID

//@ func requestURIToURL
//@ prop C17 C19
//@ fresh
//@ ensures[nonnil:a-handler] result != nil

//@ func newFileServerForPath
//@ prop C17 C19
//@ ensures[nonnil:a-handler] result != nil

// the wrapper used with a rewrite target: the (rewritten) RequestURI becomes the URL the file server sees; an unparsable one is a 500
//@ func requestURIToURL$1
//@ safety
//@ prop C17 C19
//@ at call ServeHTTP assert[served-with-the-parsed-request-uri] recv(ServeHTTP) == handler && arg(ServeHTTP, 0) == rw && arg(ServeHTTP, 1) == req
//@     && ret1(ParseRequestURI) == nil && req.URL == ret0(ParseRequestURI) && arg(ParseRequestURI, 0) == req.RequestURI
//@ ensures[unparsable-request-uri-is-a-500] called(ParseRequestURI) && ret1(ParseRequestURI) != nil ==> !called(ServeHTTP) && called(http.Error)
//@     && arg(http.Error, 2) == 500

// ------------------------------------------------------------------ C17: each upstream is registered with the handler built from ITS configuration
//@ func (*multiUpstreamProxy).registerStaticResponseHandler
//@ prop C17
//@ ensures[registered-with-its-static-handler] result == ret(registerHandler) && arg(registerHandler, 1) == upstream
//@     && arg(registerHandler, 2) == ret(newStaticResponseHandler) && arg(newStaticResponseHandler, 0) == upstream.ID
//@     && arg(newStaticResponseHandler, 1) == upstream.StaticCode && arg(registerHandler, 3) == writer

//@ func (*multiUpstreamProxy).registerFileServer
//@ prop C17
//@ ensures[registered-with-its-file-server] result == ret(registerHandler) && arg(registerHandler, 1) == upstream
//@     && arg(registerHandler, 2) == ret(newFileServer) && arg(newFileServer, 0) == upstream && arg(newFileServer, 1) == old(u.Path)
//@     && arg(registerHandler, 3) == writer

//@ func (*multiUpstreamProxy).registerHTTPUpstreamProxy
//@ prop C17
//@ ensures[registered-with-its-reverse-proxy] result == ret(registerHandler) && arg(registerHandler, 1) == upstream
//@     && arg(registerHandler, 2) == ret(newHTTPUpstreamProxy) && arg(newHTTPUpstreamProxy, 0) == upstream && arg(newHTTPUpstreamProxy, 1) == u
//@     && arg(newHTTPUpstreamProxy, 2) == sigData && arg(registerHandler, 3) == writer
