//go:build verif

package util

// Contracts for gcv (comment-only file; compiled only with -tags verif, and then to nothing).

// ------------------------------------------------------------------ C16: forwarding headers only in reverse-proxy mode
//@ func IsProxied
//@ safety
//@ nomod
//@ prop C16
//@ ensures[mode-from-scope] result <==> ret(GetRequestScope) != nil && ret(GetRequestScope).ReverseProxy
//@ ensures[same-request] arg(GetRequestScope, 0) == req

//@ func GetRequestHost
//@ safety
//@ nomod
//@ prop C16 C18
//@ ensures[direct-mode-ignores-header] !ret(IsProxied) ==> result == req.Host
//@ ensures[proxied-mode] ret(IsProxied) ==> result == ite(ret(Get) != "", ret(Get), req.Host) && arg(Get, 1) == "X-Forwarded-Host"
//@ ensures[same-request] arg(IsProxied, 0) == req && arg(Get, 0) == req.Header

//@ func GetRequestProto
//@ safety
//@ nomod
//@ prop C16
//@ ensures[direct-mode-ignores-header] !ret(IsProxied) ==> result == req.URL.Scheme
//@ ensures[proxied-mode] ret(IsProxied) ==> result == ite(ret(Get) != "", ret(Get), req.URL.Scheme) && arg(Get, 1) == "X-Forwarded-Proto"
//@ ensures[same-request] arg(IsProxied, 0) == req && arg(Get, 0) == req.Header

//@ func GetRequestURI
//@ safety
//@ nomod
//@ prop C16 C15
//@ ensures[direct-mode-ignores-header] !ret(IsProxied) ==> result == ret(RequestURI) && arg(RequestURI, 0) == req.URL
//@ ensures[proxied-mode] ret(IsProxied) && ret(Get) != "" ==> result == ret(Get) && arg(Get, 1) == "X-Forwarded-Uri"
//@ ensures[same-request] arg(IsProxied, 0) == req && arg(Get, 0) == req.Header

//@ func IsForwardedRequest
//@ safety
//@ nomod
//@ prop C16
//@ ensures[never-in-direct-mode] !ret(IsProxied) ==> !result
//@ prop C16 C06
//@ ensures[forwarded-means-proxied-under-another-host] result <==> ret(IsProxied) && called(GetRequestHost) && req.Host != ret(GetRequestHost)

// every read of a forwarding / real-client-IP header in the whole repository happens in one of these functions
//@ prop C16
//@ scan[forwarding-header-readers] header-readers pkg/requests/util.GetRequestHost pkg/requests/util.GetRequestProto pkg/requests/util.GetRequestURI
