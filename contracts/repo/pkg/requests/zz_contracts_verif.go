//go:build verif

package requests

// Contracts for gcv (comment-only file; compiled only with -tags verif, and then to nothing).

//@ stable result.*

// ------------------------------------------------------------------ C14: HTTP errors and non-200 answers never yield data
//@ func (*result).getBodyForUnmarshal
//@ safety
//@ nomod
//@ prop C14
//@ ensures[transport-error-propagates] r.err != nil ==> ret1 == r.err && ret0 == nil
//@ ensures[non-200-is-an-error] r.err == nil && (r.response == nil || r.response.StatusCode != 200) ==> ret1 != nil && ret0 == nil
//@ ensures[body-only-for-200] ret1 == nil ==> ret0 == r.body && r.err == nil && r.response != nil && r.response.StatusCode == 200

//@ func (*result).UnmarshalInto
//@ prop C14
//@ ensures[error-propagates] ret1(getBodyForUnmarshal) != nil ==> ret0 == ret1(getBodyForUnmarshal) && !called(json.Unmarshal)
//@ ensures[undecodable-body-is-an-error] called(json.Unmarshal) && ret(json.Unmarshal) != nil ==> ret0 != nil
//@ at call json.Unmarshal assert[decodes-the-checked-body] arg(json.Unmarshal, 0) == ret0(getBodyForUnmarshal) && arg(json.Unmarshal, 1) == into

//@ func (*result).UnmarshalSimpleJSON
//@ prop C14
//@ ensures[error-propagates] ret1(getBodyForUnmarshal) != nil ==> ret1 == ret1(getBodyForUnmarshal) && ret0 == nil && !called(NewJson)
//@ ensures[undecodable-body-is-an-error] called(NewJson) && ret1(NewJson) != nil ==> ret1 != nil && ret0 == nil
//@ at call NewJson assert[decodes-the-checked-body] arg(NewJson, 0) == ret0(getBodyForUnmarshal) && ret1(getBodyForUnmarshal) == nil

// ------------------------------------------------------------------ C14 / C19: the request builder hands itself on, one field set per step
//@ func New
//@ safety
//@ nomod
//@ fresh
//@ prop C14 C19
//@ ensures[a-get-request-builder-for-the-endpoint] typeis(result, "*builder") && as(result, "*builder").endpoint == endpoint
//@     && as(result, "*builder").method == "GET" && as(result, "*builder").result == nil

//@ iface Builder.WithContext
//@ prop C14 C19
//@ ensures[a-builder] result != nil
//@ iface Builder.WithBody
//@ prop C14 C19
//@ ensures[a-builder] result != nil
//@ iface Builder.WithMethod
//@ prop C14 C19
//@ ensures[a-builder] result != nil
//@ iface Builder.WithHeaders
//@ prop C14 C19
//@ ensures[a-builder] result != nil
//@ iface Builder.SetHeader
//@ prop C14 C19
//@ ensures[a-builder] result != nil
//@ iface Builder.Do
//@ prop C14 C19
//@ ensures[a-result] result != nil

//@ func (*builder).WithContext
//@ safety
//@ prop C14 C19
//@ modifies builder.context
//@ ensures[same-builder-with-the-context] result == r && r.context == ctx

//@ func (*builder).WithBody
//@ safety
//@ prop C14 C19
//@ modifies builder.body
//@ ensures[same-builder-with-the-body] result == r && r.body == body

//@ func (*builder).WithMethod
//@ safety
//@ prop C14 C19
//@ modifies builder.method
//@ ensures[same-builder-with-the-method] result == r && r.method == method

//@ func (*builder).WithHeaders
//@ safety
//@ prop C14 C19
//@ ensures[same-builder] result == r

//@ func (*builder).SetHeader
//@ safety
//@ prop C14 C19
//@ ensures[same-builder-with-a-header-map] result == r && r.header != nil

// ------------------------------------------------------------------ C14: a result without an error is a completely received response
//@ func (*builder).do
//@ prop C14 C19
//@ ensures[a-result] typeis(result, "*result")
//@ ensures[no-error-only-for-a-completely-read-response] typeis(result, "*result") && (as(result, "*result").err == nil ==>
//@     ret1(http.NewRequestWithContext) == nil && ret1(Do) == nil && ret1(io.ReadAll) == nil
//@     && as(result, "*result").response == ret0(Do) && as(result, "*result").body == ret0(io.ReadAll))
//@ at call io.ReadAll assert[reads-the-response-body] arg(io.ReadAll, 0) == ret0(Do).Body

//@ func (*builder).Do
//@ prop C14
//@ ensures[done-once-result-kept] old(r.result) != nil ==> result == old(r.result) && !called(do)
//@ ensures[otherwise-performs-the-request] old(r.result) == nil ==> called(do) && result == ret(do)

//@ func (*result).Error
//@ nomod
//@ prop C14
//@ ensures[the-recorded-error] result == r.err

//@ func (*result).StatusCode
//@ nomod
//@ prop C14
//@ ensures[status-of-the-response-or-zero] (r.response != nil ==> result == r.response.StatusCode) && (r.response == nil ==> result == 0)

//@ func (*result).Body
//@ nomod
//@ prop C14
//@ ensures[the-read-body] result == r.body

// the accessors of a Result are getters over fields that are written once, when the result is made (scan below):
// two calls on the same result agree, and nothing is modified
//@ iface Result.Error
//@ prop C14
//@ pure
//@ iface Result.StatusCode
//@ prop C14
//@ pure
//@ iface Result.Body
//@ prop C14
//@ pure
//@ iface Result.Headers
//@ prop C14
//@ pure
//@ iface Result.UnmarshalSimpleJSON
//@ prop C14 C19
//@ ensures[json-or-error] ret1 == nil ==> ret0 != nil
//@ prop C14
//@ scan[result-fields-written-only-where-the-result-is-made] field-writers result.* pkg/requests.(*builder).do
