//go:build verif

package oidc

// Contracts for gcv (comment-only file; compiled only with -tags verif, and then to nothing).

//@ stable idTokenVerifier.*
//@ nonnil idTokenVerifier.verifier

// ------------------------------------------------------------------ C04: what Verify accepts
//@ func (*idTokenVerifier).Verify
//@ prop C04 C14 C01
//@ ensures[accepted-only-if-go-oidc-verified-and-audience-ok] ret1 == nil ==> ret1(Verify) == nil && recv(Verify) == v.verifier
//@     && arg(Verify, 2) == rawIDToken && ret0 == ret0(Verify) && called(verifyAudience) && ret0(verifyAudience)
//@     && arg(verifyAudience, 1) == ret0(Verify)
//@ ensures[error-means-no-token] ret0 == nil || ret1 == nil

//@ func (*idTokenVerifier).isValidAudience
//@ safety
//@ nomod
//@ prop C04 C01
//@ loop 0 invariant[no-earlier-audience-allowed] rangeindex >= -1 && forall j int :: 0 <= j && j <= rangeindex ==> !inmap(allowedAudiences, audience[j])
//@ ensures[some-audience-is-allowed] ret0 <==> exists k int :: 0 <= k && k < len(audience) && inmap(allowedAudiences, audience[k])
//@ ensures[refusal-is-an-error] !ret0 ==> ret1 != nil

//@ func (*idTokenVerifier).verifyAudience
//@ safety
//@ prop C04 C14 C19 C01
//@ ensures[ok-only-via-allowed-audience-check] ret0 ==> called(isValidAudience) && ret0(isValidAudience)
//@     && arg(isValidAudience, 3) == v.allowedAudiences
//@ ensures[refusal-is-an-error] !ret0 ==> ret1 != nil

//@ func (*idTokenVerifier).interfaceSliceToString
//@ safety
//@ prop C14 C19 C01
//@ ensures[error-means-nothing] ret1 != nil ==> ret0 == nil


// ------------------------------------------------------------------ C04: what go-oidc is asked to check
//@ func (ProviderVerifierOptions).toOIDCConfig
//@ prop C04
//@ ensures[signature-issuer-and-expiry-are-left-to-go-oidc-audience-is-ours] result != nil && result.ClientID == p.ClientID
//@     && result.SkipIssuerCheck == p.SkipIssuerVerification && result.SkipClientIDCheck && !result.SkipExpiryCheck
//@     && !result.InsecureSkipSignatureCheck

//@ func NewProviderVerifier
//@ prop C04
//@ at call NewVerifier assert[verifier-built-from-these-options] arg(NewVerifier, 1) == ret(toVerificationOptions)
//@     && arg(NewVerifier, 0) == ret(verifierBuilder) && arg(verifierBuilder, 0) == ret(toOIDCConfig)
//@ prop C04 C01
//@ ensures[the-audience-checking-verifier-is-always-what-callers-get] ret1 == nil ==> called(NewVerifier) && typeis(ret0, "*providerVerifier")
//@     && as(ret0, "*providerVerifier").verifier == ret(NewVerifier)

//@ func (ProviderVerifierOptions).toVerificationOptions
//@ prop C04
//@ ensures[audience-options-copied] result.ClientID == p.ClientID && result.AudienceClaims == p.AudienceClaims && result.ExtraAudiences == p.ExtraAudiences

//@ func NewVerifier
//@ safety
//@ prop C19 C04
//@ ensures[nonnil:wraps-the-given-go-oidc-verifier] result != nil && typeis(result, "*idTokenVerifier") && as(result, "*idTokenVerifier").verifier == iv
//@     && as(result, "*idTokenVerifier").allowedAudiences != nil
//@ scan[nonnil:verifier-allocated-by-its-constructor] alloc-of pkg/providers/oidc.idTokenVerifier pkg/providers/oidc.NewVerifier
//@ prop C04
//@ loop 0 invariant[client-id-stays-allowed] rangeindex >= -1 && inmap(allowedAudiences, vo.ClientID)
//@     && forall j int :: 0 <= j && j <= rangeindex ==> inmap(allowedAudiences, vo.ExtraAudiences[j])
