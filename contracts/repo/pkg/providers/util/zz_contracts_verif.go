//go:build verif

package util

// Contracts for gcv (comment-only file; compiled only with -tags verif, and then to nothing).

//@ nonnil claimExtractor.tokenClaims

//@ func NewClaimExtractor
//@ safety
//@ prop C04 C14 C19
//@ ensures[nonnil:claimExtractor.tokenClaims] ret1 == nil ==> ret0 != nil && as(ret0, "*claimExtractor").tokenClaims != nil
//@ ensures[unparseable-token-is-an-error] (called(parseJWT) && ret1(parseJWT) != nil) || (called(NewJson) && ret1(NewJson) != nil) ==> ret1 != nil && ret0 == nil
//@ at call NewJson assert[claims-are-the-tokens-payload] arg(NewJson, 0) == ret0(parseJWT) && arg(parseJWT, 0) == idToken && ret1(parseJWT) == nil

//@ func (*claimExtractor).loadProfileClaims
//@ safety
//@ prop C04 C14 C19
//@ ensures[claims-or-error] ret1 == nil ==> ret0 != nil
//@ ensures[fetch-error-is-an-error] called(UnmarshalSimpleJSON) && ret1(UnmarshalSimpleJSON) != nil ==> ret1 != nil && ret0 == nil

// ------------------------------------------------------------------ C04 / C14: claims come from the ID token; the profile
// endpoint fills in only what the token lacks, and every failure on the way is an error, not a value
//@ func (*claimExtractor).GetClaim
//@ safety
//@ prop C04 C14
//@ at call getClaimFrom#0 assert[token-claims-are-asked-first] arg(getClaimFrom#0, 0) == claim && arg(getClaimFrom#0, 1) == c.tokenClaims
//@ ensures[a-claim-the-token-carries-is-the-tokens] called(getClaimFrom#0) && ret(getClaimFrom#0) != nil ==> ret0 == ret(getClaimFrom#0) && ret1
//@     && ret2 == nil && !called(loadProfileClaims) && !called(getClaimFrom#1)
//@ ensures[profile-fills-in-only-absent-claims] called(getClaimFrom#1) ==> ret(getClaimFrom#0) == nil && ret0 == ret(getClaimFrom#1)
//@     && ret1 == (ret(getClaimFrom#1) != nil) && ret2 == nil && arg(getClaimFrom#1, 0) == claim
//@ ensures[profile-error-is-an-error] called(loadProfileClaims) && ret1(loadProfileClaims) != nil ==> ret2 != nil && ret0 == nil && !ret1
//@ ensures[empty-claim-name-is-absent] claim == "" ==> ret0 == nil && !ret1 && ret2 == nil
//@ ensures[present-means-a-value] ret1 ==> ret0 != nil && ret2 == nil

//@ func (*claimExtractor).GetClaimInto
//@ safety
//@ prop C04 C14
//@ at call coerceClaim assert[coerces-the-looked-up-value-into-the-destination] arg(coerceClaim, 0) == ret0(GetClaim) && arg(coerceClaim, 1) == dst
//@     && arg(GetClaim, 1) == claim && recv(GetClaim) == c && ret2(GetClaim) == nil && ret1(GetClaim)
//@ ensures[lookup-error-propagates] ret2(GetClaim) != nil ==> !ret0 && ret1 != nil && !called(coerceClaim)
//@ ensures[absent-claim-leaves-the-destination-alone] ret2(GetClaim) == nil && !ret1(GetClaim) ==> !ret0 && ret1 == nil && !called(coerceClaim)
//@ ensures[coercion-error-propagates] called(coerceClaim) && ret(coerceClaim) != nil ==> !ret0 && ret1 != nil
//@ ensures[present-and-coerced] called(coerceClaim) && ret(coerceClaim) == nil ==> ret0 && ret1 == nil
