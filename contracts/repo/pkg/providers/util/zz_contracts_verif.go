//go:build verif

package util

// Contracts for gcv (comment-only file; compiled only with -tags verif, and then to nothing).

//@ nonnil claimExtractor.tokenClaims

//@ func NewClaimExtractor
//@ safety
//@ prop C04 C14 C19
//@ ensures[nonnil:claimExtractor.tokenClaims] ret1 == nil ==> ret0 != nil && as(ret0, "*claimExtractor").tokenClaims != nil
//@ ensures[unparseable-token-is-an-error] (called(parseJWT) && ret1(parseJWT) != nil) || (called(NewJson) && ret1(NewJson) != nil) ==> ret1 != nil && ret0 == nil
//@ at call NewJson assert[claims-are-the-tokens-payload] arg(NewJson, 0) == ret0(parseJWT) && arg(parseJWT, 0) == idToken && ret1(parseJWT) == nil

//@ func (*claimExtractor).loadProfileClaims
//@ safety
//@ prop C04 C14 C19
//@ ensures[claims-or-error] ret1 == nil ==> ret0 != nil
//@ ensures[fetch-error-is-an-error] called(UnmarshalSimpleJSON) && ret1(UnmarshalSimpleJSON) != nil ==> ret1 != nil && ret0 == nil

// ------------------------------------------------------------------ C04 / C14: claims come from the ID token; the profile
// endpoint fills in only what the token lacks, and every failure on the way is an error, not a value
//@ func (*claimExtractor).GetClaim
//@ safety
//@ prop C04 C14
//@ at call getClaimFrom#0 assert[token-claims-are-asked-first] arg(getClaimFrom#0, 0) == claim && arg(getClaimFrom#0, 1) == c.tokenClaims
//@ ensures[a-claim-the-token-carries-is-the-tokens] called(getClaimFrom#0) && ret(getClaimFrom#0) != nil ==> ret0 == ret(getClaimFrom#0) && ret1
//@     && ret2 == nil && !called(loadProfileClaims) && !called(getClaimFrom#1)
//@ ensures[profile-fills-in-only-absent-claims] called(getClaimFrom#1) ==> ret(getClaimFrom#0) == nil && ret0 == ret(getClaimFrom#1)
//@     && ret1 == (ret(getClaimFrom#1) != nil) && ret2 == nil && arg(getClaimFrom#1, 0) == claim
//@ ensures[profile-error-is-an-error] called(loadProfileClaims) && ret1(loadProfileClaims) != nil ==> ret2 != nil && ret0 == nil && !ret1
//@ ensures[empty-claim-name-is-absent] claim == "" ==> ret0 == nil && !ret1 && ret2 == nil
//@ ensures[present-means-a-value] ret1 ==> ret0 != nil && ret2 == nil

// (the same precondition is stated on the interface method: callers reach GetClaimInto through ClaimExtractor)
//@ iface ClaimExtractor.GetClaimInto
//@ prop C04 C14 C19
//@ requires[destination-is-no-nil-pointer] as(dst, "*string") != nil && as(dst, "*[]string") != nil && as(dst, "*bool") != nil

//@ func (*claimExtractor).GetClaimInto
//@ safety
//@ prop C04 C14
//@ requires[destination-is-no-nil-pointer] as(dst, "*string") != nil && as(dst, "*[]string") != nil && as(dst, "*bool") != nil
//@ at call coerceClaim assert[coerces-the-looked-up-value-into-the-destination] arg(coerceClaim, 0) == ret0(GetClaim) && arg(coerceClaim, 1) == dst
//@     && arg(GetClaim, 1) == claim && recv(GetClaim) == c && ret2(GetClaim) == nil && ret1(GetClaim)
//@ ensures[lookup-error-propagates] ret2(GetClaim) != nil ==> !ret0 && ret1 != nil && !called(coerceClaim)
//@ ensures[absent-claim-leaves-the-destination-alone] ret2(GetClaim) == nil && !ret1(GetClaim) ==> !ret0 && ret1 == nil && !called(coerceClaim)
//@ ensures[coercion-error-propagates] called(coerceClaim) && ret(coerceClaim) != nil ==> !ret0 && ret1 != nil
//@ ensures[present-and-coerced] called(coerceClaim) && ret(coerceClaim) == nil ==> ret0 && ret1 == nil

// ------------------------------------------------------------------ C14 / C19: coercion of a claim value into its destination: a value
// that cannot be converted is an error and leaves the destination as it was; no type assertion is unchecked
//@ func coerceClaim
//@ safety
//@ nilable value
//@ prop C14 C19
//@ requires[destination-is-no-nil-pointer] as(dst, "*string") != nil && as(dst, "*[]string") != nil && as(dst, "*bool") != nil
//@ ensures[unknown-destination-type-is-an-error] !typeis(dst, "*string") && !typeis(dst, "*[]string") && !typeis(dst, "*bool") ==> result != nil
//@ ensures[string-conversion-error-is-an-error] called(toString) && ret1(toString) != nil ==> result != nil
//@     && deref(as(dst, "*string")) == old(deref(as(dst, "*string")))
//@ ensures[string-is-the-converted-value] called(toString) && ret1(toString) == nil ==> result == nil && typeis(dst, "*string")
//@     && deref(as(dst, "*string")) == ret0(toString) && arg(toString, 0) == value
//@ ensures[slice-conversion-error-is-an-error] called(toStringSlice) && ret1(toStringSlice) != nil ==> result != nil
//@ ensures[slice-is-the-converted-value] called(toStringSlice) && ret1(toStringSlice) == nil ==> result == nil && typeis(dst, "*[]string")
//@     && arg(toStringSlice, 0) == value

//@ func toStringSlice
//@ safety
//@ nomod
//@ nilable value
//@ prop C14 C19
//@ loop 0 invariant[entries-so-far] rangeindex >= -1 && out != nil
//@ ensures[an-entry-that-cannot-be-converted-is-an-error] called(toString) && ret1(toString) != nil ==> ret1 != nil && ret0 == nil
//@ ensures[a-list-or-an-error] (ret1 == nil ==> ret0 != nil) && (ret1 != nil ==> ret0 == nil)

//@ func toString
//@ safety
//@ nomod
//@ nilable value
//@ prop C14 C19
//@ ensures[marshalling-error-is-an-error] called(json.Marshal) && ret1(json.Marshal) != nil ==> ret1 != nil && ret0 == ""
//@ ensures[string-form-or-json] ret1 == nil ==> (ret1(ToStringE) == nil && ret0 == ret0(ToStringE)) || (called(json.Marshal) && ret1(json.Marshal) == nil
//@     && ret0 == bytes(ret0(json.Marshal)))
//@ at call ToStringE assert[of-the-value] arg(ToStringE, 0) == value
//@ at call json.Marshal assert[of-the-value] arg(json.Marshal, 0) == value
