//go:build verif

package encryption

// Contracts for gcv (comment-only file; compiled only with -tags verif, and then to nothing).
// part(v, i) is the i-th "|"-separated component of a cookie value.

//@ define part(v string, i int) string = strings.Split(v, "|")[i]
//@ define nparts(v string) int = len(strings.Split(v, "|"))
//@ define macOK(seed string, msg string, sig string) bool = b64decErr(base64.URLEncoding, sig) == nil
//@     && b64dec(base64.URLEncoding, sig) == hsum(sha256.New, seed, msg)

//@ func Validate
//@ safety
//@ prop C09
//@ ensures[window] ok && expiration != 0 ==> t > retfirst(time.Now) - expiration && t < retlast(time.Now) + 300000000000
//@ ensures[timestamp] ok ==> strconv.Atoi(part(old(cookie.Value), 1)) * 1000000000 == t
//@ prop C02
//@ ensures[three-parts] ok ==> nparts(old(cookie.Value)) == 3
//@ ensures[mac-covers-name-value-time] ok ==> macOK(seed, old(cookie.Name) + part(old(cookie.Value), 0) + part(old(cookie.Value), 1),
//@     part(old(cookie.Value), 2))
//@ ensures[value-is-macd-part] ok ==> bytes(value) == b64dec(base64.URLEncoding, part(old(cookie.Value), 0))
//@     && b64decErr(base64.URLEncoding, part(old(cookie.Value), 0)) == nil
//@ ensures[reject-nil] !ok ==> value == nil

//@ func checkSignature
//@ safety
//@ nomod
//@ uses b64-roundtrip
//@ prop C02
//@ requires len(args) == 4
//@ ensures[mac] result ==> macOK(args[0], args[1] + args[2] + args[3], signature)

//@ func checkHmac
//@ safety
//@ nomod
//@ uses b64-roundtrip
//@ prop C02
//@ ensures[equal-decoded] result ==> b64decErr(base64.URLEncoding, input) == nil && b64decErr(base64.URLEncoding, expected) == nil
//@     && b64dec(base64.URLEncoding, input) == b64dec(base64.URLEncoding, expected)

//@ func cookieSignature
//@ safety
//@ nomod
//@ prop C02
//@ requires len(args) == 4
//@ ensures[plain-concat] ret1 == nil ==> ret0 == b64enc(base64.URLEncoding, hsum(signer, args[0], args[1] + args[2] + args[3]))
//@ loop 0 invariant[acc] rangeindex >= -1 && rangeindex < 3 && h.hashkey == args[0] && h.hashalg == signer
//@     && h.hashbuf == ite(rangeindex == -1, "", ite(rangeindex == 0, args[1], ite(rangeindex == 1, args[1] + args[2], args[1] + args[2] + args[3])))

//@ func SignedValue
//@ safety
//@ prop C02 C09
//@ ensures[format] ret1 == nil ==> ret0 == b64enc(base64.URLEncoding, bytes(value)) + "|" + itoa(unix(now)) + "|"
//@     + b64enc(base64.URLEncoding, hsum(sha256.New, seed, key + b64enc(base64.URLEncoding, bytes(value)) + itoa(unix(now))))

// ------------------------------------------------------------------ C03 / C05: nonces
// hashOf(n) is what leaves the proxy for nonce bytes n: base64url(SHA-256(n)).
//@ define hashOf(n string) string = b64enc(base64.RawURLEncoding, hsum(256, "", n))

//@ func HashNonce
//@ safety
//@ nomod
//@ prop C03 C05
//@ ensures[nil-is-empty] nonce == nil ==> result == ""
//@ ensures[sha256-base64url] nonce != nil ==> result == hashOf(bytes(nonce))

//@ func CheckNonce
//@ safety
//@ nomod
//@ prop C03 C05
//@ ensures[compares-hash] result <==> ite(nonce == nil, "", hashOf(bytes(nonce))) == hashed

//@ func GenerateCodeChallenge
//@ safety
//@ prop C05
//@ ensures[plain] method == "plain" ==> ret1 == nil && ret0 == codeVerifier
//@ ensures[s256] method == "S256" ==> ret1 == nil && ret0 == b64enc(base64.RawURLEncoding, crypto_sha256(codeVerifier))
//@ ensures[other-is-error] method != "plain" && method != "S256" ==> ret1 != nil && ret0 == ""

// ------------------------------------------------------------------ C13 / C19: decrypting arbitrary store bytes never panics
//@ func (*gcmCipher).Decrypt
//@ safety
//@ replay recv func() *gcmCipher { c, _ := NewGCMCipher([]byte("0123456789abcdef")); return c.(*gcmCipher) }()
//@ prop C13 C19
//@ ensures[error-means-no-plaintext] ret1 != nil ==> ret0 == nil
//@ ensures[plaintext-only-from-authenticated-open] ret1 == nil ==> called(Open) && ret1(Open) == nil && ret0 == ret0(Open)

//@ func (*cfbCipher).Decrypt
//@ safety
//@ prop C13 C19
//@ ensures[short-input-is-an-error] len(ciphertext) < 16 ==> ret1 != nil && ret0 == nil

//@ func (*base64Cipher).Decrypt
//@ prop C13
//@ ensures[undecodable-is-an-error] ret1(DecodeString) != nil ==> ret1 != nil && ret0 == nil && !called(Decrypt)

// ------------------------------------------------------------------ C05: the PKCE verifier is n bytes from the system's random source, URL-safe
//@ func GenerateCodeVerifierString
//@ safety
//@ prop C05 C19
//@ requires n >= 0
//@ at call io.ReadFull assert[fills-all-n-bytes-from-the-system-random-source] arg(io.ReadFull, 0) == rand.Reader && arg(io.ReadFull, 1) == data
//@     && len(data) == n
//@ ensures[random-source-failure-is-an-error] ret1(io.ReadFull) != nil ==> ret1 != nil && ret0 == ""
//@ ensures[verifier-is-the-unpadded-url-safe-encoding-of-those-bytes] ret1 == nil ==> ret1(io.ReadFull) == nil
//@     && ret0 == b64enc(ret(WithPadding), bytes(data)) && recv(WithPadding) == deref(base64.URLEncoding) && arg(WithPadding, 1) == base64.NoPadding

// ------------------------------------------------------------------ C13 / C19 / C02: cipher constructors give a cipher or an error
//@ func NewGCMCipher
//@ prop C13 C19 C02
//@ ensures[a-cipher-or-an-error] (ret1 == nil ==> ret0 != nil) && (ret1 != nil ==> ret0 == nil)

//@ func NewCFBCipher
//@ prop C13 C19 C02
//@ ensures[a-cipher-or-an-error] (ret1 == nil ==> ret0 != nil) && (ret1 != nil ==> ret0 == nil)


// ------------------------------------------------------------------ C02: what the ciphers emit is the library's encryption of exactly the given value under a fresh random nonce / IV
//@ func (*gcmCipher).Encrypt
//@ safety
//@ prop C02 C19
//@ ensures[no-ciphertext-without-a-random-nonce] called(ReadFull) && ret1(ReadFull) != nil ==> ret1 != nil && ret0 == nil && !called(Seal)
//@ ensures[ciphertext-is-the-sealed-value] ret1 == nil ==> called(Seal) && ret0 == ret(Seal) && ret1(ReadFull) == nil
//@ at call Seal assert[seals-exactly-the-given-value] arg(Seal, 2) == value && arg(Seal, 3) == nil

//@ func (*cfbCipher).Encrypt
//@ safety
//@ prop C02 C19
//@ ensures[no-ciphertext-without-a-random-iv] called(ReadFull) && ret1(ReadFull) != nil ==> ret1 != nil && ret0 == nil && !called(XORKeyStream)
//@ at call XORKeyStream assert[encrypts-exactly-the-given-value-under-the-random-iv] arg(XORKeyStream, 1) == value && ret1(ReadFull) == nil

//@ func (*base64Cipher).Encrypt
//@ prop C02 C13
//@ ensures[inner-cipher-failure-gives-nothing] called(Encrypt) && ret1(Encrypt) != nil ==> ret1 != nil && ret0 == nil
//@ at call Encrypt assert[the-inner-cipher-gets-the-value] arg(Encrypt, 0) == value
//@ at call EncodeToString assert[encodes-the-inner-ciphertext] arg(EncodeToString, 1) == ret0(Encrypt) && ret1(Encrypt) == nil
