//go:build verif

package validation

// Contracts for gcv (comment-only file; compiled only with -tags verif, and then to nothing).

// ------------------------------------------------------------------ C18: cookie domains are sorted longest first
//@ func validateCookie$1
//@ safety
//@ nomod
//@ prop C18
//@ requires[config:sort-slice-passes-valid-indices] 0 <= i && i < len(o.Domains) && 0 <= j && j < len(o.Domains)
//@ ensures[longer-first] result <==> len(o.Domains[i]) > len(o.Domains[j])

//@ func validateCookie
//@ prop C18 C09
//@ ensures[domains-sorted-by-the-length-comparator] called(sort.Slice)
//@ ensures[refresh-must-be-shorter-than-lifetime] o.Expire != 0 && o.Refresh >= o.Expire ==> len(result) > 0
// what request handling assumes about validated cookie options (the requires[config:...] clauses of pkg/cookies and
// pkg/sessions/cookie) is established here: no message means the caller's options satisfy it
//@ prop C19 C18
//@ ensures[config:samesite-validated] len(result) == 0 ==> o.SameSite == "" || o.SameSite == "none" || o.SameSite == "lax" || o.SameSite == "strict"
//@ ensures[config:cookie-name-at-most-256-bytes] len(result) == 0 ==> len(o.Name) <= 256
//@ ensures[config:secret-present] len(result) == 0 ==> o.Secret != ""
//@ ensures[config:cookie-name-valid] len(result) == 0 ==> validCookieName(o.Name)

//@ func validateCookieName
//@ nomod
//@ prop C19 C18
//@ ensures[long-names-are-rejected] len(name) > 256 ==> len(result) > 0
//@ ensures[names-net-http-cannot-serialise-are-rejected] !validCookieName(name) ==> len(result) > 0

//@ func validateCookieSecret
//@ nomod
//@ prop C19 C02
//@ ensures[missing-secret-is-rejected] secret == "" ==> len(result) > 0
//@ ensures[only-aes-key-sizes-pass] len(result) == 0 ==> len(ret(SecretBytes)) == 16 || len(ret(SecretBytes)) == 24 || len(ret(SecretBytes)) == 32

//@ prop C18
//@ lemma[length-order-irreflexive] forall a int :: !(a > a)
//@ lemma[length-order-transitive] forall a int, b int, c int :: a > b && b > c ==> a > c
//@ lemma[length-order-incomparability-transitive] forall a int, b int, c int :: !(a > b) && !(b > a) && !(b > c) && !(c > b) ==> !(a > c) && !(c > a)

// ------------------------------------------------------------------ C16: the real-client-IP parser exists only in reverse-proxy mode
//@ func Validate
//@ shallow
//@ prop C16
//@ at call SetRealClientIPParser assert[parser-only-in-reverse-proxy-mode] o.ReverseProxy

// ------------------------------------------------------------------ C04 / C01: bearer verifiers for the extra JWT issuers check issuer and audience
//@ func newVerifierFromJwtIssuer
//@ prop C04 C01
//@ at call NewProviderVerifier#0 assert[verifier-for-this-issuer-and-audience-with-issuer-check] arg(NewProviderVerifier#0, 1).IssuerURL == jwtIssuer.issuerURI
//@     && arg(NewProviderVerifier#0, 1).ClientID == jwtIssuer.audience && !arg(NewProviderVerifier#0, 1).SkipIssuerVerification
//@     && arg(NewProviderVerifier#0, 1).AudienceClaims == audienceClaims && arg(NewProviderVerifier#0, 1).ExtraAudiences == extraAudiences
//@ at call NewProviderVerifier#1 assert[fallback-without-discovery-keeps-issuer-and-audience-checks] arg(NewProviderVerifier#1, 1).IssuerURL == jwtIssuer.issuerURI
//@     && arg(NewProviderVerifier#1, 1).ClientID == jwtIssuer.audience && !arg(NewProviderVerifier#1, 1).SkipIssuerVerification
//@     && arg(NewProviderVerifier#1, 1).AudienceClaims == audienceClaims && arg(NewProviderVerifier#1, 1).ExtraAudiences == extraAudiences
//@     && arg(NewProviderVerifier#1, 1).SkipDiscovery && HasPrefix(arg(NewProviderVerifier#1, 1).JWKsURL, strings.TrimSuffix(jwtIssuer.issuerURI, "/"))
//@ ensures[verifier-only-from-a-successfully-built-provider-verifier] ret1 == nil ==> ret0 == ret(Verifier)
//@     && ((ret1(NewProviderVerifier#0) == nil && recv(Verifier) == ret0(NewProviderVerifier#0))
//@         || (ret1(NewProviderVerifier#1) == nil && recv(Verifier) == ret0(NewProviderVerifier#1)))

//@ func parseJwtIssuers
//@ prop C04
//@ loop 0 invariant[bounds] rangeindex >= -1
//@ at call append#1 assert[issuer-is-the-part-before-the-first-equals-sign-audience-the-rest] len(components) >= 2

// ------------------------------------------------------------------ C19: what the static upstream handler assumes about its status code is established here
//@ func validateStaticUpstream
//@ safety
//@ nomod
//@ prop C19 C17
//@ ensures[config:static-code-is-a-status-code] len(result) == 0 && upstream.Static && upstream.StaticCode != nil ==>
//@     100 <= deref(upstream.StaticCode) && deref(upstream.StaticCode) <= 999
//@ ensures[a-code-on-a-non-static-upstream-is-rejected] !upstream.Static && upstream.StaticCode != nil ==> len(result) > 0

