//go:build verif

package validation

// Contracts for gcv (comment-only file; compiled only with -tags verif, and then to nothing).

// ------------------------------------------------------------------ C18: cookie domains are sorted longest first
//@ func validateCookie$1
//@ safety
//@ nomod
//@ prop C18
//@ requires[config:sort-slice-passes-valid-indices] 0 <= i && i < len(o.Domains) && 0 <= j && j < len(o.Domains)
//@ ensures[longer-first] result <==> len(o.Domains[i]) > len(o.Domains[j])

//@ func validateCookie
//@ prop C18 C09
//@ ensures[domains-sorted-by-the-length-comparator] called(sort.Slice)
//@ ensures[refresh-must-be-shorter-than-lifetime] o.Expire != 0 && o.Refresh >= o.Expire ==> len(result) > 0

//@ prop C18
//@ lemma[length-order-irreflexive] forall a int :: !(a > a)
//@ lemma[length-order-transitive] forall a int, b int, c int :: a > b && b > c ==> a > c
//@ lemma[length-order-incomparability-transitive] forall a int, b int, c int :: !(a > b) && !(b > a) && !(b > c) && !(c > b) ==> !(a > c) && !(c > a)

// ------------------------------------------------------------------ C16: the real-client-IP parser exists only in reverse-proxy mode
//@ func Validate
//@ shallow
//@ prop C16
//@ at call SetRealClientIPParser assert[parser-only-in-reverse-proxy-mode] o.ReverseProxy
