//go:build verif

package providers

// Contracts for gcv (comment-only file; compiled only with -tags verif, and then to nothing).

// Authorisation is a read-only decision on the session.
//@ iface Provider.Authorize
//@ prop C01 C08
//@ nomod
