//go:build verif

package providers

// Contracts for gcv (comment-only file; compiled only with -tags verif, and then to nothing).

// Authorisation is a read-only decision on the session.
//@ iface Provider.Authorize
//@ prop C01 C08
//@ nomod

// redeemCode dereferences the session it gets whenever there is no error: every provider's Redeem owes it one
//@ iface Provider.Redeem
//@ prop C14 C19
//@ ensures[no-error-means-a-session] ret1 == nil ==> ret0 != nil

//@ stable OIDCProvider.* ProviderData.Verifier ProviderData.AllowedGroups ProviderData.EmailClaim ProviderData.UserClaim
//@ stable ProviderData.GroupsClaim ProviderData.AllowUnverifiedEmail ProviderData.ProfileURL ProviderData.SkipClaimsFromProfileURL
//@ stable ProviderData.CodeChallengeMethod ProviderData.LoginURL ProviderData.RedeemURL ProviderData.ClientID
//@ nonnil OIDCProvider.ProviderData KeycloakOIDCProvider.OIDCProvider LoginGovProvider.PubJWKURL
//@ stable MicrosoftEntraIDProvider.* KeycloakOIDCProvider.OIDCProvider ADFSProvider.OIDCProvider ADFSProvider.oidcRefreshFunc
//@ stable GitLabProvider.OIDCProvider GitLabProvider.oidcRefreshFunc LoginGovProvider.PubJWKURL

// the fields declared stable above are written by constructors only
//@ prop C04 C05 C14
//@ scan[oidc-provider-fields-written-by-its-constructor] field-writers OIDCProvider.* providers.NewOIDCProvider
//@ scan[entra-provider-fields-written-by-its-constructor] field-writers MicrosoftEntraIDProvider.* providers.NewMicrosoftEntraIDProvider
//@ scan[keycloak-oidc-embedded-provider-written-by-its-constructor] field-writers KeycloakOIDCProvider.OIDCProvider providers.NewKeycloakOIDCProvider
//@ scan[adfs-provider-fields-written-by-its-constructor] field-writers ADFSProvider.* providers.NewADFSProvider
//@ scan[gitlab-provider-delegates-written-by-its-constructor] field-writers GitLabProvider.OIDCProvider providers.NewGitLabProvider
//@ scan[gitlab-provider-refresh-delegate-written-by-its-constructor] field-writers GitLabProvider.oidcRefreshFunc providers.NewGitLabProvider
//@ scan[verifier-written-while-provider-data-is-built] field-writers ProviderData.Verifier providers.newProviderDataFromConfig

// ------------------------------------------------------------------ C08: group authorisation
//@ func (*ProviderData).Authorize
//@ safety
//@ nomod
//@ prop C08 C01
//@ loop 0 invariant[no-earlier-group-allowed] rangeindex >= -1 && forall j int :: 0 <= j && j <= rangeindex ==> !inmap(p.AllowedGroups, s.Groups[j])
//@ ensures[never-errors] ret1 == nil
//@ ensures[groups-must-intersect-when-configured] ret0 <==> len(p.AllowedGroups) == 0
//@     || exists k int :: 0 <= k && k < len(s.Groups) && inmap(p.AllowedGroups, s.Groups[k])

// the allowed set is exactly the configured list (an empty list configures no restriction)
//@ func (*ProviderData).setAllowedGroups
//@ safety
//@ prop C08
//@ loop 0 invariant[exactly-the-groups-so-far] p.AllowedGroups != nil && rangeindex >= -1 && rangeindex < len(groups)
//@     && (forall g string :: inmap(p.AllowedGroups, g) <==> exists j int :: 0 <= j && j <= rangeindex && groups[j] == g)
//@ ensures[exactly-the-configured-groups] forall g string :: inmap(p.AllowedGroups, g) <==> exists j int :: 0 <= j && j < len(groups) && groups[j] == g

// provider-specific group options (gitlab-group, keycloak-group, google-group) are ADDED to the allowed set
//@ func (*ProviderData).addAllowedGroups
//@ safety
//@ prop C08
//@ loop 0 invariant[groups-kept-new-ones-so-far-added] rangeindex >= -1 && rangeindex < len(groups) && p.AllowedGroups != nil
//@     && (old(p.AllowedGroups) != nil ==> p.AllowedGroups == old(p.AllowedGroups))
//@     && (forall g string :: old(inmap(p.AllowedGroups, g)) ==> inmap(p.AllowedGroups, g))
//@     && (forall j int :: 0 <= j && j <= rangeindex ==> inmap(p.AllowedGroups, groups[j]))
//@ ensures[earlier-allowed-groups-stay-allowed] forall g string :: old(inmap(p.AllowedGroups, g)) ==> inmap(p.AllowedGroups, g)
//@ ensures[every-given-group-is-allowed] forall j int :: 0 <= j && j < len(groups) ==> inmap(p.AllowedGroups, groups[j])

//@ func NewKeycloakOIDCProvider
//@ safety
//@ prop C08 C19
//@ ensures[nonnil:wraps-an-oidc-provider] result != nil && result.OIDCProvider != nil && result.OIDCProvider == ret(NewOIDCProvider)
//@ at call addAllowedRoles assert[roles-from-the-options-onto-the-provider-being-built] arg(addAllowedRoles, 1) == opts.KeycloakConfig.Roles
//@     && arg(NewOIDCProvider, 0) == p
//@ prop C19
//@ scan[nonnil:keycloak-oidc-providers-allocated-by-the-constructor] alloc-of providers.KeycloakOIDCProvider providers.NewKeycloakOIDCProvider

// Keycloak roles are ADDED to the allowed set ("role:" + name); the groups allowed before stay allowed — and an allowed set
// that was not empty does not become empty (an empty set means "everybody")
//@ func (*KeycloakOIDCProvider).addAllowedRoles
//@ safety
//@ prop C08
//@ loop 0 invariant[groups-kept-roles-so-far-added] rangeindex >= -1 && rangeindex < len(roles) && p.AllowedGroups != nil
//@     && (old(p.AllowedGroups) != nil ==> p.AllowedGroups == old(p.AllowedGroups))
//@     && (forall g string :: old(inmap(p.AllowedGroups, g)) ==> inmap(p.AllowedGroups, g))
//@     && (forall j int :: 0 <= j && j <= rangeindex ==> inmap(p.AllowedGroups, "role:" + roles[j]))
//@ ensures[earlier-allowed-groups-stay-allowed] forall g string :: old(inmap(p.AllowedGroups, g)) ==> inmap(p.AllowedGroups, g)
//@ ensures[every-role-is-allowed-under-its-prefix] forall j int :: 0 <= j && j < len(roles) ==> inmap(p.AllowedGroups, "role:" + roles[j])
//@ ensures[same-map-when-there-was-one] old(p.AllowedGroups) != nil ==> p.AllowedGroups == old(p.AllowedGroups)

// ------------------------------------------------------------------ C04 / C14: sessions only from verified ID tokens
//@ func (*ProviderData).verifyIDToken
//@ prop C04 C14
//@ ensures[verified-by-configured-verifier] ret1 == nil ==> called(Verify) && ret1(Verify) == nil && ret0 == ret0(Verify)
//@     && recv(Verify) == p.Verifier && arg(Verify, 1) == ret(getIDToken) && arg(getIDToken, 0) == token
//@ ensures[missing-token] strings.TrimSpace(ret(getIDToken)) == "" ==> ret1 == ErrMissingIDToken && !called(Verify)
//@ ensures[error-means-no-token] ret1 != nil ==> ret0 == nil || called(Verify)

//@ func (*OIDCProvider).createSession
//@ prop C04 C14
//@ ensures[no-error-means-a-session] ret1 == nil ==> ret0 != nil
//@ at call buildSessionFromClaims assert[claims-only-from-verified-token-or-tokenless-refresh] ret1(verifyIDToken) == nil
//@     || (refresh && ret1(verifyIDToken) == ErrMissingIDToken)
//@ at call buildSessionFromClaims assert[claims-from-this-tokens-id-token] arg(buildSessionFromClaims, 1) == ret(getIDToken)
//@     && arg(getIDToken, 0) == token && arg(verifyIDToken, 2) == token
//@ ensures[session-only-via-claims] ret0 != nil ==> called(buildSessionFromClaims) && ret1(buildSessionFromClaims) == nil
//@     && ret0 == ret0(buildSessionFromClaims) && ret1 == nil
//@ ensures[error-means-no-session] ret1 != nil ==> ret0 == nil

//@ func (*OIDCProvider).CreateSessionFromToken
//@ prop C04 C01
//@ at call buildSessionFromClaims assert[bearer-token-verified-first] ret1(Verify) == nil && recv(Verify) == p.Verifier
//@     && arg(Verify, 1) == token && arg(buildSessionFromClaims, 1) == token
//@ ensures[session-only-via-claims] ret0 != nil ==> called(buildSessionFromClaims) && ret1(buildSessionFromClaims) == nil
//@     && ret0 == ret0(buildSessionFromClaims)
//@ ensures[error-means-no-session] ret1 != nil ==> ret0 == nil

//@ func (*ProviderData).CreateSessionFromToken
//@ prop C04 C01
//@ ensures[only-through-verifier] ret0 != nil ==> p.Verifier != nil && called(CreateTokenToSessionFunc)

//@ func (*OIDCProvider).redeemRefreshToken
//@ prop C04 C14
//@ ensures[failure-assigns-nothing-to-the-session] ret0 != nil ==> !stored("SessionState.IDToken") && !stored("SessionState.Email")
//@     && !stored("SessionState.User") && !stored("SessionState.Groups") && !stored("SessionState.AccessToken")
//@     && !stored("SessionState.RefreshToken") && !stored("SessionState.CreatedAt") && !stored("SessionState.ExpiresOn")
//@ ensures[identity-fields-only-with-a-new-id-token] stored("SessionState.Email") || stored("SessionState.User") || stored("SessionState.Groups")
//@     ==> stored("SessionState.IDToken") && ret1(createSession) == nil
//@ ensures[identity-only-from-a-verified-token] ret0 == nil ==> called(createSession) && ret1(createSession) == nil
//@     && arg(createSession, 3)

//@ func (*OIDCProvider).RefreshSession
//@ prop C14 C12
//@ ensures[refreshed-only-on-success] ret0 ==> ret1 == nil && called(redeemRefreshToken) && ret(redeemRefreshToken) == nil
//@ ensures[error-not-refreshed] ret1 != nil ==> !ret0

//@ func (*ProviderData).buildSessionFromClaims
//@ prop C04 C14
//@ loop 0 invariant[claim-table-index] rangeindex >= -1
//@ ensures[no-error-means-a-session] ret1 == nil ==> ret0 != nil
//@ ensures[unverified-email-refused] ret1 == nil && rawIDToken != "" && p.EmailClaim == "email" && !p.AllowUnverifiedEmail ==>
//@     called(GetClaimInto#1) && ret1(GetClaimInto#1) == nil && arg(GetClaimInto#1, 0) == "email_verified"
//@ ensures[claim-error-means-no-session] ret1 != nil ==> ret0 == nil
//@ ensures[extractor-error-propagates] called(getClaimExtractor) && ret1(getClaimExtractor) != nil ==> ret1 != nil && ret0 == nil

// ------------------------------------------------------------------ C05: nonce binding
//@ func (*OIDCProvider).ValidateSession
//@ prop C05 C14 C04
//@ at call Verify assert[verifies-the-sessions-id-token] recv(Verify) == p.Verifier && arg(Verify, 1) == s.IDToken
//@ ensures[valid-only-if-token-verifies-and-nonce-matches] result ==> ret1(Verify) == nil
//@     && (p.SkipNonce || (called(checkNonce) && ret(checkNonce) == nil && arg(checkNonce, 1) == s))

//@ func (*ProviderData).checkNonce
//@ prop C05
//@ ensures[nonce-claim-must-hash-match-session-nonce] ret0 == nil ==> called(CheckNonce) && ret(CheckNonce) && arg(CheckNonce, 0) == s
//@     && ret1(GetClaimInto) == nil && arg(GetClaimInto, 0) == "nonce" && ret1(getClaimExtractor) == nil
//@ at call getClaimExtractor assert[claims-of-the-sessions-id-token] arg(getClaimExtractor, 1) == s.IDToken

//@ func (*OIDCProvider).GetLoginURL
//@ prop C05 C06
//@ at call Add assert[nonce-param-unless-disabled] !p.SkipNonce && arg(Add, 1) == "nonce" && arg(Add, 2) == nonce
//@ ensures[nonce-sent-unless-disabled] !p.SkipNonce ==> called(Add)
//@ ensures[login-url-from-configured-endpoint] result == ret(String) && arg(makeLoginURL, 1) == redirectURI && arg(makeLoginURL, 2) == state

// ------------------------------------------------------------------ C06: the login redirect targets the configured authorization endpoint
//@ func makeLoginURL
//@ prop C06 C05
//@ requires[config:login-url-configured] p.LoginURL != nil
//@ ensures[scheme-host-path-of-the-configured-endpoint] result.Scheme == old(p.LoginURL.Scheme) && result.Host == old(p.LoginURL.Host)
//@     && result.Path == old(p.LoginURL.Path) && result.Opaque == old(p.LoginURL.Opaque) && result.User == old(p.LoginURL.User)
//@ ensures[only-the-query-is-built] result.RawQuery == ret(Encode)
//@ at call Set#0 assert[redirect-uri-param] arg(Set#0, 1) == "redirect_uri" && arg(Set#0, 2) == redirectURI
//@ at call Add#1 assert[state-param] arg(Add#1, 1) == "state" && arg(Add#1, 2) == state

// ------------------------------------------------------------------ C14: the default code redemption
//@ func (*ProviderData).Redeem
//@ prop C14
//@ ensures[no-code-no-session] code == "" ==> ret1 == ErrMissingCode && ret0 == nil
//@ ensures[request-error-means-no-session] called(Error#1) ==> ret1 == ret(Error#1) && ret0 == nil && ret(Error#0) != nil
//@ ensures[error-means-no-session] ret1 != nil ==> ret0 == nil
//@ ensures[session-only-from-an-error-free-200-answer] ret0 != nil ==> called(Do) && ret(Error#0) == nil && ret(StatusCode#0) == 200
//@ prop C05
//@ at call Add#5 assert[the-logins-pkce-verifier-goes-to-the-token-endpoint] arg(Add#5, 1) == "code_verifier" && arg(Add#5, 2) == codeVerifier
//@     && codeVerifier != ""
//@ ensures[a-verifier-is-always-sent-when-there-is-one] codeVerifier != "" && called(Do) ==> called(Add#5)
//@ at call Add#3 assert[the-callbacks-code-is-redeemed] arg(Add#3, 1) == "code" && arg(Add#3, 2) == code

// ------------------------------------------------------------------ C14: provider-specific lookups that judge the HTTP status themselves
//@ func (*GitHubProvider).isCollaborator
//@ prop C14 C08
//@ ensures[collaborator-only-on-an-error-free-204] ret0 ==> called(Do) && ret(Error#0) == nil && ret(StatusCode#0) == 204 && ret1 == nil
//@ ensures[anything-else-is-an-error] !ret0 ==> ret1 != nil

// ------------------------------------------------------------------ C14: access-token validation fails closed
//@ func validateToken
//@ prop C14 C12
//@ ensures[valid-only-for-an-error-free-200-answer] result ==> called(Do) && ret(Error#0) == nil && ret(StatusCode#1) == 200 && accessToken != ""
//@ ensures[request-error-is-invalid] called(Error#0) && ret(Error#0) != nil ==> !result

// ------------------------------------------------------------------ C12 / C14: re-validation of a session by the providers without OIDC
// verification is the answer of the validation endpoint for this session's access token, nothing else
//@ func (*AzureProvider).ValidateSession
//@ safety
//@ prop C12 C14
//@ ensures[valid-exactly-if-the-access-token-validates] called(validateToken) && result == ret(validateToken) && arg(validateToken, 1) == p
//@     && arg(validateToken, 2) == old(s.AccessToken)

//@ func (*DigitalOceanProvider).ValidateSession
//@ safety
//@ prop C12 C14
//@ ensures[valid-exactly-if-the-access-token-validates] called(validateToken) && result == ret(validateToken) && arg(validateToken, 1) == p
//@     && arg(validateToken, 2) == old(s.AccessToken)

//@ func (*FacebookProvider).ValidateSession
//@ safety
//@ prop C12 C14
//@ ensures[valid-exactly-if-the-access-token-validates] called(validateToken) && result == ret(validateToken) && arg(validateToken, 1) == p
//@     && arg(validateToken, 2) == old(s.AccessToken)

//@ func (*GitHubProvider).ValidateSession
//@ safety
//@ prop C12 C14
//@ ensures[valid-exactly-if-the-access-token-validates] called(validateToken) && result == ret(validateToken) && arg(validateToken, 1) == p
//@     && arg(validateToken, 2) == old(s.AccessToken)

//@ func (*KeycloakProvider).ValidateSession
//@ safety
//@ prop C12 C14
//@ ensures[valid-exactly-if-the-access-token-validates] called(validateToken) && result == ret(validateToken) && arg(validateToken, 1) == p
//@     && arg(validateToken, 2) == old(s.AccessToken)

//@ func (*LinkedInProvider).ValidateSession
//@ safety
//@ prop C12 C14
//@ ensures[valid-exactly-if-the-access-token-validates] called(validateToken) && result == ret(validateToken) && arg(validateToken, 1) == p
//@     && arg(validateToken, 2) == old(s.AccessToken)

//@ func (*LoginGovProvider).ValidateSession
//@ safety
//@ prop C12 C14
//@ ensures[valid-exactly-if-the-access-token-validates] called(validateToken) && result == ret(validateToken) && arg(validateToken, 1) == p
//@     && arg(validateToken, 2) == old(s.AccessToken)

//@ func (*NextcloudProvider).ValidateSession
//@ safety
//@ prop C12 C14
//@ ensures[valid-exactly-if-the-access-token-validates] called(validateToken) && result == ret(validateToken) && arg(validateToken, 1) == p
//@     && arg(validateToken, 2) == old(s.AccessToken)

//@ func (*ProviderData).ValidateSession
//@ safety
//@ prop C12 C14
//@ ensures[valid-exactly-if-the-access-token-validates] called(validateToken) && result == ret(validateToken) && arg(validateToken, 1) == p
//@     && arg(validateToken, 2) == old(s.AccessToken)

// ------------------------------------------------------------------ C04: the verifier is built from this provider's options
//@ func newProviderDataFromConfig
//@ shallow
//@ prop C04 C01 C14
//@ at call NewProviderVerifier assert[verifier-options-from-the-provider-options] arg(NewProviderVerifier, 1).ClientID == providerConfig.ClientID
//@     && arg(NewProviderVerifier, 1).SkipIssuerVerification == providerConfig.OIDCConfig.InsecureSkipIssuerVerification
//@     && arg(NewProviderVerifier, 1).AudienceClaims == providerConfig.OIDCConfig.AudienceClaims
//@     && arg(NewProviderVerifier, 1).ExtraAudiences == providerConfig.OIDCConfig.ExtraAudiences
//@     && arg(NewProviderVerifier, 1).IssuerURL == providerConfig.OIDCConfig.IssuerURL
//@     && arg(NewProviderVerifier, 1).JWKsURL == providerConfig.OIDCConfig.JwksURL
//@     && arg(NewProviderVerifier, 1).PublicKeyFiles == providerConfig.OIDCConfig.PublicKeyFiles
//@     && arg(NewProviderVerifier, 1).SkipDiscovery == providerConfig.OIDCConfig.SkipDiscovery
//@ ensures[verifier-error-is-an-error] called(NewProviderVerifier) && ret1(NewProviderVerifier) != nil ==> ret1 != nil && ret0 == nil
//@ ensures[unknown-provider-type-is-an-error] ret1(providerRequiresOIDCProviderVerifier) != nil ==> ret1 != nil && ret0 == nil
//@ ensures[oidc-providers-get-a-verifier] ret1 == nil && ret0(providerRequiresOIDCProviderVerifier) ==> called(NewProviderVerifier) && called(Verifier)
//@ at call setAllowedGroups assert[email-policy-and-claims-from-the-options] recv(setAllowedGroups).AllowUnverifiedEmail == providerConfig.OIDCConfig.InsecureAllowUnverifiedEmail
//@     && recv(setAllowedGroups).GroupsClaim == providerConfig.OIDCConfig.GroupsClaim
//@     && recv(setAllowedGroups).SkipClaimsFromProfileURL == providerConfig.SkipClaimsFromProfileURL
//@     && arg(setAllowedGroups, 1) == providerConfig.AllowedGroups
//@ at call compileLoginParams assert[verifier-stored-in-the-provider-data] called(NewProviderVerifier) ==> recv(compileLoginParams).Verifier == ret(Verifier)
//@ prop C05
//@ at call setAllowedGroups assert[configured-code-challenge-method-is-always-applied] called(parseCodeChallengeMethod)
//@     && recv(setAllowedGroups).CodeChallengeMethod == ret(parseCodeChallengeMethod)

//@ func parseCodeChallengeMethod
//@ nomod
//@ prop C05
//@ ensures[the-configured-method] result == providerConfig.CodeChallengeMethod

// ------------------------------------------------------------------ C04 / C05 / C14: providers built on the OIDC provider delegate to it
//@ func (*MicrosoftEntraIDProvider).ValidateSession
//@ prop C05 C04 C14 C12 C01
//@ ensures[valid-only-if-the-oidc-validation-succeeds] result ==> called(ValidateSession) && ret(ValidateSession)
//@     && arg(ValidateSession, 0) == old(p.OIDCProvider) && arg(ValidateSession, 2) == session
//@ ensures[unreadable-tenant-is-invalid] ret1(getTenantFromToken) != nil ==> !result
//@ ensures[the-tokens-tenant-must-be-allowed-when-tenants-are-configured] result && len(old(p.multiTenantAllowedTenants)) > 0 ==>
//@     called(checkTenantMatchesTenantList) && ret(checkTenantMatchesTenantList) && arg(checkTenantMatchesTenantList, 1) == ret0(getTenantFromToken)
//@     && arg(checkTenantMatchesTenantList, 2) == old(p.multiTenantAllowedTenants) && arg(getTenantFromToken, 1) == session

//@ func (*MicrosoftEntraIDProvider).Redeem
//@ prop C04 C05 C14
//@ ensures[session-only-from-the-oidc-redemption-or-the-federated-one] ret0 != nil ==>
//@     (called(Redeem) && ret0 == ret0(Redeem) && ret1 == ret1(Redeem) && arg(Redeem, 0) == old(p.OIDCProvider) && arg(Redeem, 3) == code && arg(Redeem, 4) == codeVerifier)
//@     || (called(redeemWithFederatedToken) && ret0 == ret0(redeemWithFederatedToken) && ret1 == ret1(redeemWithFederatedToken))

//@ func (*MicrosoftEntraIDProvider).redeemWithFederatedToken
//@ prop C04 C05 C14
//@ ensures[no-error-means-a-session] ret1 == nil ==> ret0 != nil
//@ ensures[session-only-from-oidc-session-creation] ret0 != nil ==> called(createSession) && ret0 == ret0(createSession) && ret1 == ret1(createSession)
//@     && arg(createSession, 0) == old(p.OIDCProvider) && !arg(createSession, 3)

//@ func (*KeycloakOIDCProvider).CreateSessionFromToken
//@ prop C04 C14 C01
//@ ensures[session-only-from-the-oidc-bearer-verification] ret0 != nil ==> called(CreateSessionFromToken) && ret0 == ret0(CreateSessionFromToken)
//@     && ret1(CreateSessionFromToken) == nil && arg(CreateSessionFromToken, 0) == old(p.OIDCProvider) && arg(CreateSessionFromToken, 2) == token

//@ func (*KeycloakOIDCProvider).RefreshSession
//@ prop C04 C14 C12
//@ ensures[refreshed-only-if-the-oidc-refresh-succeeded] ret0 ==> called(RefreshSession) && ret0(RefreshSession) && arg(RefreshSession, 2) == s
//@     && arg(RefreshSession, 0) == old(p.OIDCProvider)
//@ ensures[refresh-error-propagates] ret1(RefreshSession) != nil ==> ret1 == ret1(RefreshSession) && ret0 == ret0(RefreshSession)

//@ func (*ADFSProvider).RefreshSession
//@ prop C04 C14 C12
//@ ensures[refreshed-iff-the-oidc-refresh-says-so] called(oidcRefreshFunc) && ret0 == ret0(oidcRefreshFunc) && arg(oidcRefreshFunc, 1) == s
//@ ensures[refresh-error-propagates] ret1(oidcRefreshFunc) != nil ==> ret1 == ret1(oidcRefreshFunc)

//@ func (*GitLabProvider).RefreshSession
//@ prop C04 C14 C12
//@ ensures[refreshed-iff-the-oidc-refresh-says-so] called(oidcRefreshFunc) && ret0 == ret0(oidcRefreshFunc) && ret1 == ret1(oidcRefreshFunc)
//@     && arg(oidcRefreshFunc, 1) == s

//@ func NewOIDCProvider
//@ prop C19 C04
//@ ensures[nonnil:oidc-provider-over-the-given-provider-data] result != nil && result.ProviderData == p && result.SkipNonce == opts.InsecureSkipNonce
//@ prop C19
//@ scan[nonnil:oidc-provider-allocated-by-its-constructor] alloc-of providers.OIDCProvider providers.NewOIDCProvider

// ------------------------------------------------------------------ C05: per-login parameters are never written into shared provider state
//@ func (*ProviderData).LoginURLParams
//@ fresh
//@ prop C05 C19
//@ ensures[a-map-of-its-own-for-every-login] result != nil

// ------------------------------------------------------------------ C14 / C04: Azure (legacy provider): no claims, and no session at redemption,
// from tokens the configured verifier rejected
//@ func (*AzureProvider).verifySessionToken
//@ prop C14 C04
//@ at call Verify#0 assert[the-id-token-first] recv(Verify#0) == p.Verifier && arg(Verify#0, 1) == session.IDToken && session.IDToken != ""
//@ at call Verify#1 assert[then-the-access-token] recv(Verify#1) == p.Verifier && arg(Verify#1, 1) == session.AccessToken && ret1(Verify#0) != nil
//@ at call Verify#2 assert[the-access-token-when-there-is-no-id-token] recv(Verify#2) == p.Verifier && arg(Verify#2, 1) == session.AccessToken
//@     && session.IDToken == ""
//@ ensures[accepted-only-if-one-of-the-tokens-verified] ret0 == nil && old(p.Verifier) != nil ==> (called(Verify#0) && ret1(Verify#0) == nil)
//@     || (called(Verify#1) && ret1(Verify#1) == nil) || (called(Verify#2) && ret1(Verify#2) == nil)

//@ func (*AzureProvider).extractClaimsIntoSession
//@ prop C14 C04
//@ ensures[claims-only-from-verified-tokens] called(buildSessionFromClaims#0) ==> called(verifySessionToken) && ret(verifySessionToken) == nil
//@     && arg(verifySessionToken, 2) == session
//@ ensures[unverifiable-tokens-are-an-error] called(verifySessionToken) && ret(verifySessionToken) != nil ==> ret0 != nil
//@     && !called(buildSessionFromClaims#0) && !called(buildSessionFromClaims#1)
//@ ensures[unreadable-claims-are-an-error] called(buildSessionFromClaims#1) && ret1(buildSessionFromClaims#1) != nil ==> ret0 != nil

//@ func (*AzureProvider).Redeem
//@ prop C14 C04
//@ ensures[token-endpoint-failure-gives-no-session] called(UnmarshalInto) && ret(UnmarshalInto) != nil ==> ret0 == nil && ret1 != nil
//@     && !called(extractClaimsIntoSession)
//@ ensures[unverifiable-or-unreadable-tokens-give-no-session] called(extractClaimsIntoSession) && ret(extractClaimsIntoSession) != nil ==> ret0 == nil
//@     && ret1 != nil
//@ ensures[session-only-after-its-tokens-were-checked] ret1 == nil ==> called(extractClaimsIntoSession) && ret(extractClaimsIntoSession) == nil
//@     && arg(extractClaimsIntoSession, 2) == ret0

// ------------------------------------------------------------------ `stable ProviderData.*`: written only while a provider is being constructed
// The fields callers keep across unknown calls are assigned by newProviderDataFromConfig (the object it allocates) and by the
// three construction-time setters below; those setters are called from constructors only (New*Provider, NewProvider's
// newProviderDataFromConfig) — request handling never reaches them.
//@ prop C04 C05 C08 C14 C19
//@ scan[stable:provider-data-written-by-construction-only] field-writers ProviderData.AllowedGroups providers.newProviderDataFromConfig providers.(*ProviderData).setAllowedGroups providers.(*ProviderData).addAllowedGroups providers.(*KeycloakOIDCProvider).addAllowedRoles
//@ scan[stable:provider-claims-written-by-construction-only] field-writers ProviderData.EmailClaim providers.newProviderDataFromConfig providers.(*ProviderData).setProviderDefaults providers.NewNextcloudProvider
//@ scan[stable:provider-user-claim-written-by-construction-only] field-writers ProviderData.UserClaim providers.newProviderDataFromConfig providers.(*ProviderData).setProviderDefaults
//@ scan[stable:provider-login-url-written-by-construction-only] field-writers ProviderData.LoginURL providers.newProviderDataFromConfig providers.(*ProviderData).setProviderDefaults
//@ scan[stable:provider-redeem-url-written-by-construction-only] field-writers ProviderData.RedeemURL providers.newProviderDataFromConfig providers.(*ProviderData).setProviderDefaults
//@ scan[stable:provider-profile-url-written-by-construction-only] field-writers ProviderData.ProfileURL providers.newProviderDataFromConfig providers.(*ProviderData).setProviderDefaults
//@ scan[stable:defaults-set-by-constructors-only] callers (*ProviderData).setProviderDefaults providers.New*
//@ scan[stable:allowed-groups-set-at-construction-only] callers (*ProviderData).setAllowedGroups providers.newProviderDataFromConfig
//@ scan[stable:allowed-roles-added-at-construction-only] callers (*KeycloakOIDCProvider).addAllowedRoles providers.NewKeycloakOIDCProvider
// C08: the groups configured with allowed_groups are put into the set once (setAllowedGroups, called by newProviderDataFromConfig
// only: contract exactly-the-configured-groups); every other writer of the set only ADDS entries (contracts
// earlier-allowed-groups-stay-allowed of addAllowedGroups / addAllowedRoles; GitLab's setAllowedProjects inserts project entries
// into the set, and an insertion removes nothing), and nothing else touches the map's entries
//@ prop C08
//@ scan[provider-group-options-are-added-by-constructors-only] callers (*ProviderData).addAllowedGroups providers.NewGitLabProvider providers.NewKeycloakProvider providers.NewGoogleProvider
//@ scan[allowed-group-entries-written-by-the-setters-only] slice-field-frozen ProviderData.AllowedGroups providers.(*ProviderData).setAllowedGroups providers.(*ProviderData).addAllowedGroups providers.(*KeycloakOIDCProvider).addAllowedRoles providers.(*GitLabProvider).setAllowedProjects


// ------------------------------------------------------------------ C14 / C19: provider-specific decoders of what the identity provider sent:
// a missing or wrongly typed piece is an error (or is skipped), never a crash
//@ func claimsFromIDToken
//@ safety
//@ prop C14 C19 C04
//@ ensures[a-token-without-a-payload-segment-is-an-error] len(strings.Split(idToken, ".")) < 2 ==> ret1 != nil && ret0 == nil
//@ ensures[undecodable-payload-is-an-error] (called(DecodeString) && ret1(DecodeString) != nil) || (called(json.Unmarshal) && ret(json.Unmarshal) != nil)
//@     ==> ret1 != nil && ret0 == nil
//@ ensures[claims-only-with-a-verified-email] ret1 == nil ==> ret0 != nil && ret0.Email != "" && ret0.EmailVerified

// `nonnil LoginGovProvider.PubJWKURL`: configure, which every constructed login.gov provider went through, parses it
//@ func (*LoginGovProvider).configure
//@ prop C19 C14
//@ ensures[nonnil:the-key-url-is-parsed-first] ret0 == nil ==> p.PubJWKURL != nil
//@ func NewLoginGovProvider
//@ prop C19 C14
//@ ensures[nonnil:only-configured-providers-are-returned] ret1 == nil ==> ret0 != nil && called(configure) && ret(configure) == nil && recv(configure) == ret0
//@ prop C19
//@ scan[nonnil:login-gov-providers-allocated-by-the-constructor] alloc-of providers.LoginGovProvider providers.NewLoginGovProvider
//@ scan[nonnil:the-key-url-is-written-by-configure-only] field-writers LoginGovProvider.PubJWKURL providers.(*LoginGovProvider).configure

//@ func checkNonce$1
//@ safety
//@ prop C14 C19
//@ ensures[a-key-or-an-error] called(UnmarshalInto) && ret(UnmarshalInto) != nil ==> ret1 != nil && ret0 == nil

//@ func getClientRoles
//@ safety
//@ prop C14 C19

//@ func getEmailFromJSON
//@ safety
//@ prop C14 C19
//@ ensures[no-address-is-an-error] ret1 == nil ==> called(String#0)

// ------------------------------------------------------------------ C08 / C14: the GitHub provider's own restrictions (org, team, repository, user)
// the restriction options are written by the three setters, which only the constructor calls; the constructor copies the options
//@ nonnil GitHubProvider.ProviderData
//@ stable GitHubProvider.ProviderData GitHubProvider.Org GitHubProvider.Team GitHubProvider.Repo GitHubProvider.Token GitHubProvider.Users
//@ prop C08
//@ scan[github-org-team-written-by-its-setter] field-writers GitHubProvider.Org providers.(*GitHubProvider).setOrgTeam
//@ scan[github-team-written-by-its-setter] field-writers GitHubProvider.Team providers.(*GitHubProvider).setOrgTeam
//@ scan[github-repo-written-by-its-setter] field-writers GitHubProvider.Repo providers.(*GitHubProvider).setRepo
//@ scan[github-token-written-by-its-setter] field-writers GitHubProvider.Token providers.(*GitHubProvider).setRepo
//@ scan[github-users-written-by-its-setter] field-writers GitHubProvider.Users providers.(*GitHubProvider).setUsers
//@ scan[github-org-team-set-by-the-constructor-only] callers (*GitHubProvider).setOrgTeam providers.NewGitHubProvider
//@ scan[github-repo-set-by-the-constructor-only] callers (*GitHubProvider).setRepo providers.NewGitHubProvider
//@ scan[github-users-set-by-the-constructor-only] callers (*GitHubProvider).setUsers providers.NewGitHubProvider

//@ func NewGitHubProvider
//@ safety
//@ prop C08
//@ ensures[restrictions-are-the-configured-ones] result != nil && result.Org == opts.Org && result.Team == opts.Team && result.Repo == opts.Repo
//@     && result.Token == opts.Token && result.Users == opts.Users && result.ProviderData == p

// a login is enriched only when every step answered without error, in particular the restriction check
// every provider constructor runs setProviderDefaults, after which none of the four endpoint URLs is nil
//@ stable ProviderData.ValidateURL
//@ prop C14 C19
//@ scan[stable:provider-validate-url-written-by-construction-only] field-writers ProviderData.ValidateURL providers.newProviderDataFromConfig providers.(*ProviderData).setProviderDefaults providers.NewAzureProvider
//@ func defaultURL
//@ safety
//@ nomod
//@ nilable u d
//@ prop C14 C19
//@ ensures[never-nil] result != nil

//@ func (*ProviderData).setProviderDefaults
//@ safety
//@ prop C14 C19
//@ ensures[config:provider-urls-defaulted] p.LoginURL != nil && p.RedeemURL != nil && p.ProfileURL != nil && p.ValidateURL != nil

//@ func (*GitHubProvider).makeGitHubAPIEndpoint
//@ safety
//@ nomod
//@ nilable params
//@ prop C14 C19
//@ requires[config:provider-urls-defaulted] p.ValidateURL != nil
//@ ensures[never-nil] result != nil

//@ func (*GitHubProvider).EnrichSession
//@ safety
//@ prop C08 C14
//@ ensures[every-step-must-succeed] result == nil ==> called(getOrgAndTeam) && ret(getOrgAndTeam) == nil && called(checkRestrictions)
//@     && ret(checkRestrictions) == nil && called(getEmail) && ret(getEmail) == nil && called(getUser) && ret(getUser) == nil
//@ ensures[restrictions-are-checked-on-this-session] called(checkRestrictions) ==> arg(checkRestrictions, 2) == s
//@ ensures[a-failed-restriction-check-is-an-error] called(checkRestrictions) && ret(checkRestrictions) != nil ==> result != nil

//@ func (*GitHubProvider).checkRestrictions
//@ safety
//@ prop C08 C14
//@ ensures[user-lookup-failure-is-an-error] called(checkUserRestriction) && ret1(checkUserRestriction) != nil ==> result != nil
//@ ensures[accepted-only-as-listed-user-or-through-the-org-team-repo-checks] result == nil ==> ret0(checkUserRestriction)
//@     || (called(hasOrgAndTeamAccess) && ret(hasOrgAndTeamAccess) == nil && arg(hasOrgAndTeamAccess, 1) == s
//@         && (p.Org == "" && p.Repo != "" && p.Token == "" ==> called(hasRepoAccess) && ret(hasRepoAccess) == nil))
//@ at call hasRepoAccess assert[repository-access-of-this-sessions-token] arg(hasRepoAccess, 2) == s.AccessToken

//@ func (*GitHubProvider).checkUserRestriction
//@ safety
//@ prop C08 C14
//@ ensures[no-user-list-no-verdict] len(p.Users) == 0 ==> !ret0 && ret1 == nil
//@ ensures[verified-only-by-the-user-endpoint] ret0 && ret1 == nil ==> called(hasUser) && ret0(hasUser) && ret1(hasUser) == nil
//@ at call hasUser assert[user-of-this-sessions-token] arg(hasUser, 2) == s.AccessToken
//@ ensures[lookup-failure-is-an-error] called(hasUser) && ret1(hasUser) != nil ==> ret1 != nil
//@ ensures[users-only-configuration-rejects-everybody-else] len(p.Users) != 0 && p.Org == "" && p.Repo == "" && ret1 == nil ==> ret0

//@ func (*GitHubProvider).hasOrgAndTeamAccess
//@ safety
//@ prop C08
//@ ensures[org-and-team-configured-both-are-checked] p.Org != "" && p.Team != "" ==> called(hasOrgAndTeam) && result == ret(hasOrgAndTeam)
//@     && arg(hasOrgAndTeam, 1) == s
//@ ensures[org-configured-org-is-checked] p.Org != "" && p.Team == "" ==> called(hasOrg) && result == ret(hasOrg) && arg(hasOrg, 1) == s

//@ func (*GitHubProvider).isVerifiedUser
//@ safety
//@ nomod
//@ prop C08
//@ loop 0 invariant[no-earlier-user-matches] rangeindex >= -1 && forall j int :: 0 <= j && j <= rangeindex ==> p.Users[j] != username
//@ ensures[exactly-the-listed-users] result <==> exists k int :: 0 <= k && k < len(p.Users) && p.Users[k] == username

//@ func (*GitHubProvider).hasUser
//@ safety
//@ prop C08 C14
//@ ensures[undecodable-answer-is-an-error] called(UnmarshalInto) && ret(UnmarshalInto) != nil ==> !ret0 && ret1 != nil
//@ ensures[verified-only-if-the-list-says-so] ret0 ==> ret1 == nil && called(isVerifiedUser) && ret(isVerifiedUser)
//@ at call isVerifiedUser assert[the-login-the-user-endpoint-reported] arg(isVerifiedUser, 1) == user.Login

//@ func (*GitHubProvider).hasRepoAccess
//@ safety
//@ prop C08 C14
//@ ensures[undecodable-answer-is-an-error] called(UnmarshalInto) && ret(UnmarshalInto) != nil ==> result != nil
//@ ensures[access-only-from-a-decoded-answer] result == nil ==> called(UnmarshalInto) && ret(UnmarshalInto) == nil
//@ ensures[access-only-with-push-or-pull-on-a-private-repository] result == nil ==> repo.Permissions.Push || (repo.Private && repo.Permissions.Pull)

//@ func (*GitHubProvider).getUser
//@ safety
//@ prop C08 C14
//@ ensures[undecodable-answer-is-an-error] called(UnmarshalInto) && ret(UnmarshalInto) != nil ==> result != nil && !stored("SessionState.User")
//@ ensures[collaborator-check-decides-when-it-applies] called(isCollaborator) && (ret1(isCollaborator) != nil || !ret0(isCollaborator))
//@     ==> result != nil && !stored("SessionState.User")
//@ ensures[collaborator-check-applies-to-unlisted-users-of-a-repo-with-a-token] result == nil && !ret(isVerifiedUser) && p.Org == ""
//@     && p.Repo != "" && p.Token != "" ==> called(isCollaborator) && ret0(isCollaborator) && arg(isCollaborator, 3) == p.Token

//@ func (*GitHubProvider).getEmail
//@ safety
//@ prop C14
//@ ensures[undecodable-answer-is-an-error] called(UnmarshalInto) && ret(UnmarshalInto) != nil ==> result != nil && !stored("SessionState.Email")

//@ func (*GitHubProvider).getOrgAndTeam
//@ safety
//@ prop C08 C14
//@ ensures[both-lookups-must-succeed] result == nil ==> called(getOrgs) && ret(getOrgs) == nil && called(getTeams) && ret(getTeams) == nil

//@ func (*GitHubProvider).getOrgs
//@ safety
//@ prop C14

//@ func (*GitHubProvider).getTeams
//@ safety
//@ prop C14

//@ func (*GitHubProvider).hasOrg
//@ safety
//@ nomod
//@ loop 0 invariant[orgs-are-groups-of-the-session] rangeindex >= -1 && forall j int :: 0 <= j && j < len(orgs) ==>
//@     exists k int :: 0 <= k && k < len(s.Groups) && s.Groups[k] == orgs[j]
//@ loop 1 invariant[orgs-are-still-groups-of-the-session] rangeindex >= -1 && forall j int :: 0 <= j && j < len(orgs) ==>
//@     exists k int :: 0 <= k && k < len(s.Groups) && s.Groups[k] == orgs[j]
//@ ensures[member-only-if-the-org-is-among-the-sessions-groups] result == nil ==> exists k int :: 0 <= k && k < len(s.Groups) && s.Groups[k] == p.Org
//@ prop C08

//@ func (*GitHubProvider).hasOrgAndTeam
//@ safety
//@ prop C08

// ------------------------------------------------------------------ C08 / C14: the Bitbucket provider's team and repository restrictions
//@ nonnil BitbucketProvider.ProviderData
//@ stable BitbucketProvider.ProviderData BitbucketProvider.Team BitbucketProvider.Repository
//@ prop C08
//@ scan[bitbucket-team-written-by-its-setter] field-writers BitbucketProvider.Team providers.(*BitbucketProvider).setTeam
//@ scan[bitbucket-repository-written-by-its-setter] field-writers BitbucketProvider.Repository providers.(*BitbucketProvider).setRepository
//@ scan[bitbucket-team-set-by-the-constructor-only] callers (*BitbucketProvider).setTeam providers.NewBitbucketProvider
//@ scan[bitbucket-repository-set-by-the-constructor-only] callers (*BitbucketProvider).setRepository providers.NewBitbucketProvider

//@ func NewBitbucketProvider
//@ safety
//@ prop C08
//@ ensures[restrictions-are-the-configured-ones] result != nil && result.Team == opts.Team && result.Repository == opts.Repository
//@     && result.ProviderData == p

// an address (which is what lets the login through) only after every configured membership lookup answered and listed the
// configured team / repository
//@ func (*BitbucketProvider).GetEmailAddress
//@ safety
//@ prop C08 C14
//@ requires[config:provider-urls-defaulted] p.ValidateURL != nil
//@ ensures[the-configured-repository-must-be-listed] ret0 != "" && p.Repository != "" ==> exists j int :: 0 <= j && j < len(repositories.Values)
//@     && repositories.Values[j].FullName == p.Repository
//@ ensures[the-configured-team-must-be-listed] ret0 != "" && p.Team != "" && p.Repository == "" ==> exists j int :: 0 <= j && j < len(teams.Values)
//@     && teams.Values[j].Name == p.Team
//@ at call Split assert[the-configured-team-must-be-listed-before-the-repository-is-asked-for] p.Team != "" ==> exists j int :: 0 <= j
//@     && j < len(teams.Values) && teams.Values[j].Name == p.Team
//@ ensures[undecodable-email-answer-is-an-error] called(UnmarshalInto#0) && ret(UnmarshalInto#0) != nil ==> ret0 == "" && ret1 != nil
//@ ensures[team-lookup-must-succeed] ret0 != "" && p.Team != "" ==> called(UnmarshalInto#1) && ret(UnmarshalInto#1) == nil
//@ ensures[repository-lookup-must-succeed] ret0 != "" && p.Repository != "" ==> called(UnmarshalInto#2) && ret(UnmarshalInto#2) == nil
//@ ensures[failed-lookups-give-no-address] (called(UnmarshalInto#1) && ret(UnmarshalInto#1) != nil)
//@     || (called(UnmarshalInto#2) && ret(UnmarshalInto#2) != nil) ==> ret0 == "" && ret1 != nil

// ------------------------------------------------------------------ C14 / C05 / C09: Google's own redemption and refresh
//@ nonnil GoogleProvider.ProviderData DigitalOceanProvider.ProviderData FacebookProvider.ProviderData LinkedInProvider.ProviderData
//@ nonnil NextcloudProvider.ProviderData KeycloakProvider.ProviderData GoogleProvider.groupValidator
//@ stable GoogleProvider.ProviderData DigitalOceanProvider.ProviderData FacebookProvider.ProviderData LinkedInProvider.ProviderData
//@ stable NextcloudProvider.ProviderData KeycloakProvider.ProviderData GoogleProvider.groupValidator
//@ prop C14 C19
//@ scan[google-group-validator-written-at-construction-only] field-writers GoogleProvider.groupValidator providers.NewGoogleProvider providers.(*GoogleProvider).setGroupRestriction
//@ scan[google-group-restriction-set-by-the-constructor-only] callers (*GoogleProvider).setGroupRestriction providers.NewGoogleProvider
//@ func (*GoogleProvider).Redeem
//@ safety
//@ prop C14 C04
//@ requires[config:provider-urls-defaulted] p.RedeemURL != nil
//@ ensures[no-code-no-session] code == "" ==> ret1 == ErrMissingCode && ret0 == nil
//@ ensures[token-endpoint-failure-gives-no-session] called(UnmarshalInto) && ret(UnmarshalInto) != nil ==> ret0 == nil && ret1 != nil
//@     && !called(claimsFromIDToken)
//@ ensures[undecodable-or-unverified-id-token-gives-no-session] called(claimsFromIDToken) && ret1(claimsFromIDToken) != nil ==> ret0 == nil && ret1 != nil
//@ ensures[session-only-from-decoded-claims] ret0 != nil ==> ret1 == nil && called(claimsFromIDToken) && ret1(claimsFromIDToken) == nil
//@     && ret0 == recv(CreatedAtNow)
//@ at call CreatedAtNow assert[identity-is-what-the-id-token-says] recv(CreatedAtNow).Email == ret0(claimsFromIDToken).Email
//@     && recv(CreatedAtNow).User == ret0(claimsFromIDToken).Subject && ret1(claimsFromIDToken) == nil
//@ ensures[error-means-no-session] ret1 != nil ==> ret0 == nil
//@ prop C05
//@ at call Add#5 assert[the-logins-pkce-verifier-goes-to-the-token-endpoint] arg(Add#5, 1) == "code_verifier" && arg(Add#5, 2) == codeVerifier
//@     && codeVerifier != ""
//@ ensures[a-verifier-is-always-sent-when-there-is-one] codeVerifier != "" && called(Do) ==> called(Add#5)
//@ at call Add#3 assert[the-callbacks-code-is-redeemed] arg(Add#3, 1) == "code" && arg(Add#3, 2) == code
//@ prop C09
//@ ensures[redeemed-session-is-stamped] ret1 == nil ==> called(CreatedAtNow) && recv(CreatedAtNow) == ret0 && called(ExpiresIn) && recv(ExpiresIn) == ret0

//@ func (*GoogleProvider).redeemRefreshToken
//@ safety
//@ prop C14 C12
//@ requires[config:provider-urls-defaulted] p.RedeemURL != nil
//@ ensures[failure-assigns-nothing-to-the-session] result != nil ==> !stored("SessionState.AccessToken") && !stored("SessionState.IDToken")
//@     && !called(CreatedAtNow) && !called(ExpiresIn)
//@ ensures[token-endpoint-failure-is-an-error] called(UnmarshalInto) && ret(UnmarshalInto) != nil ==> result != nil
//@ at call Add#2 assert[this-sessions-refresh-token-is-redeemed] arg(Add#2, 1) == "refresh_token" && arg(Add#2, 2) == s.RefreshToken
//@ prop C09
//@ ensures[refreshed-session-is-restamped] result == nil ==> called(CreatedAtNow) && recv(CreatedAtNow) == s && called(ExpiresIn) && recv(ExpiresIn) == s

//@ func (*GoogleProvider).RefreshSession
//@ safety
//@ nilable s
//@ prop C14 C12 C08
//@ ensures[no-refresh-token-no-refresh] s == nil ==> !ret0 && ret1 == nil && !called(redeemRefreshToken)
//@ ensures[refreshed-only-on-success] ret0 ==> ret1 == nil && called(redeemRefreshToken) && ret(redeemRefreshToken) == nil
//@     && arg(redeemRefreshToken, 2) == s
//@ ensures[refresh-failure-is-an-error] called(redeemRefreshToken) && ret(redeemRefreshToken) != nil ==> !ret0 && ret1 != nil
//@ ensures[error-not-refreshed] ret1 != nil ==> !ret0

// ------------------------------------------------------------------ C14: the small providers' profile lookups: no address / identity from a failed or undecodable answer
//@ func (*DigitalOceanProvider).GetEmailAddress
//@ safety
//@ prop C14
//@ requires[config:provider-urls-defaulted] p.ProfileURL != nil
//@ ensures[no-token-no-lookup] old(s.AccessToken) == "" ==> ret0 == "" && ret1 != nil && !called(Do)
//@ ensures[failed-lookup-gives-no-address] called(UnmarshalSimpleJSON) && ret1(UnmarshalSimpleJSON) != nil ==> ret0 == "" && ret1 != nil
//@ ensures[missing-or-mistyped-address-is-an-error] called(String#1) && ret1(String#1) != nil ==> ret0 == "" && ret1 != nil

//@ func (*FacebookProvider).GetEmailAddress
//@ safety
//@ prop C14
//@ requires[config:provider-urls-defaulted] p.ProfileURL != nil
//@ ensures[no-token-no-lookup] old(s.AccessToken) == "" ==> ret0 == "" && ret1 != nil && !called(Do)
//@ ensures[failed-lookup-gives-no-address] called(UnmarshalInto) && ret(UnmarshalInto) != nil ==> ret0 == "" && ret1 != nil
//@ ensures[an-address-or-an-error] ret1 == nil ==> ret0 != ""

//@ func (*LinkedInProvider).GetEmailAddress
//@ safety
//@ prop C14
//@ requires[config:provider-urls-defaulted] p.ProfileURL != nil
//@ ensures[no-token-no-lookup] old(s.AccessToken) == "" ==> ret0 == "" && ret1 != nil && !called(Do)
//@ ensures[failed-lookup-gives-no-address] called(UnmarshalSimpleJSON) && ret1(UnmarshalSimpleJSON) != nil ==> ret0 == "" && ret1 != nil
//@ ensures[missing-or-mistyped-address-is-an-error] called(String#1) && ret1(String#1) != nil ==> ret0 == "" && ret1 != nil

//@ func (*NextcloudProvider).EnrichSession
//@ safety
//@ prop C14
//@ requires[config:provider-urls-defaulted] p.ProfileURL != nil && p.ValidateURL != nil
//@ ensures[failed-lookup-assigns-nothing] called(UnmarshalSimpleJSON) && ret1(UnmarshalSimpleJSON) != nil ==> result != nil
//@     && !stored("SessionState.User") && !stored("SessionState.Email") && !stored("SessionState.Groups")
//@ ensures[identity-complete-or-an-error] result == nil ==> stored("SessionState.User") && stored("SessionState.Email")

//@ func (*KeycloakProvider).EnrichSession
//@ safety
//@ prop C14
//@ requires[config:provider-urls-defaulted] p.ProfileURL != nil && p.ValidateURL != nil
//@ ensures[failed-lookup-assigns-nothing] called(UnmarshalSimpleJSON) && ret1(UnmarshalSimpleJSON) != nil ==> result != nil
//@     && !stored("SessionState.User") && !stored("SessionState.Email") && !stored("SessionState.Groups")
//@ ensures[an-address-or-an-error] result == nil ==> stored("SessionState.Email")

// the Directory lookup behind Google group restrictions: every failure (API error of any status, transport or decode failure)
// means "not a member", never a crash
//@ func userInGroup
//@ safety
//@ prop C14 C19 C08
//@ requires[config:admin-service-built-by-the-library-constructor] service != nil && service.Members != nil
//@ ensures[member-only-on-an-answer-that-says-so] result ==> (called(Do#0) && ret1(Do#0) == nil) || (called(Do#1) && ret1(Do#1) == nil)

// ------------------------------------------------------------------ C05: the default login URL carries the parameters the caller computed for this login
// (the PKCE challenge and its method travel in extraParams): the very same map reaches the URL builder, with at most a response mode added
//@ func (*ProviderData).GetLoginURL
//@ safety
//@ prop C05 C03
//@ at call makeLoginURL assert[the-callers-parameters-reach-the-url] arg(makeLoginURL, 3) == extraParams && arg(makeLoginURL, 1) == redirectURI
//@     && arg(makeLoginURL, 2) == state && arg(makeLoginURL, 0) == p
//@ at call Add assert[only-a-response-mode-is-added] arg(Add, 1) == "response_mode" && arg(Add, 2) == p.AuthRequestResponseMode
//@ ensures[the-built-url-is-returned] called(makeLoginURL) && result == ret(String)

// ------------------------------------------------------------------ C08 / C14: GitLab's own enrichment (userinfo endpoint, project access)
//@ nonnil GitLabProvider.OIDCProvider
//@ stable GitLabProvider.allowedProjects gitlabProject.*
//@ prop C08 C19
//@ scan[gitlab-projects-written-by-their-setter] field-writers GitLabProvider.allowedProjects providers.(*GitLabProvider).setAllowedProjects
//@ scan[gitlab-project-entries-written-where-they-are-parsed] field-writers gitlabProject.* providers.newGitlabProject
//@ scan[gitlab-projects-set-by-the-constructor-only] callers (*GitLabProvider).setAllowedProjects providers.NewGitLabProvider

//@ func newGitlabProject
//@ safety
//@ prop C08 C19
//@ ensures[nonnil:a-project-or-an-error] ret1 == nil ==> ret0 != nil

//@ func (*GitLabProvider).EnrichSession
//@ safety
//@ prop C14 C08
//@ ensures[failed-userinfo-lookup-assigns-nothing] called(getUserinfo) && ret1(getUserinfo) != nil ==> result != nil && !stored("SessionState.User")
//@     && !stored("SessionState.Email") && !stored("SessionState.Groups") && !called(addProjectsToSession)
//@ at call addProjectsToSession assert[only-after-a-decoded-userinfo-with-a-verified-email] ret1(getUserinfo) == nil
//@     && (p.AllowUnverifiedEmail || ret0(getUserinfo).EmailVerified) && arg(addProjectsToSession, 2) == s
//@ ensures[enriched-or-an-error] result == nil ==> called(addProjectsToSession)

//@ func (*GitLabProvider).getUserinfo
//@ safety
//@ prop C14
//@ requires[config:provider-urls-defaulted] p.LoginURL != nil
//@ ensures[undecodable-answer-is-an-error] called(UnmarshalInto) && ret(UnmarshalInto) != nil ==> ret0 == nil && ret1 != nil
//@ ensures[userinfo-or-an-error] ret1 == nil ==> called(UnmarshalInto) && ret(UnmarshalInto) == nil
//@ ensures[nonnil:userinfo-unless-error] ret1 == nil ==> ret0 != nil

//@ func (*GitLabProvider).getProjectInfo
//@ safety
//@ prop C14 C08
//@ requires[config:provider-urls-defaulted] p.LoginURL != nil
//@ ensures[undecodable-answer-is-an-error] called(UnmarshalInto) && ret(UnmarshalInto) != nil ==> ret0 == nil && ret1 != nil
//@ ensures[project-info-or-an-error] ret1 == nil ==> called(UnmarshalInto) && ret(UnmarshalInto) == nil
//@ ensures[nonnil:project-info-unless-error] ret1 == nil ==> ret0 != nil

// a project entry is added to the session's groups only for a project whose info was fetched, that is not archived, and on
// which the user has project-level (or, failing that, group-level) access of at least the configured level
//@ func formatProject
//@ nomod
//@ prop C08
//@ ensures[the-project-group-name] result == gitlabProjectPrefix + project.Name

//@ func (*GitLabProvider).addProjectsToSession
//@ prop C08 C14
//@ loop 0 invariant[project-table-index] rangeindex >= -1
//@ at call formatProject assert[only-fetched-unarchived-projects] ret1(getProjectInfo) == nil && !ret0(getProjectInfo).Archived
//@ at call formatProject assert[the-project-that-was-looked-up-for-this-session] arg(getProjectInfo, 3) == arg(formatProject, 0).Name && arg(getProjectInfo, 2) == s
//@ at call formatProject assert[only-with-the-configured-access-level] (ret0(getProjectInfo).Permissions.ProjectAccess != nil
//@             && ret0(getProjectInfo).Permissions.ProjectAccess.AccessLevel >= arg(formatProject, 0).AccessLevel)
//@         || (ret0(getProjectInfo).Permissions.ProjectAccess == nil && ret0(getProjectInfo).Permissions.GroupAccess != nil
//@             && ret0(getProjectInfo).Permissions.GroupAccess.AccessLevel >= arg(formatProject, 0).AccessLevel)

// ------------------------------------------------------------------ C14 / C05 / C04: login.gov's own redemption
//@ nonnil LoginGovProvider.ProviderData
//@ stable LoginGovProvider.ProviderData LoginGovProvider.Nonce
//@ prop C05
//@ scan[login-gov-nonce-written-by-its-constructor] field-writers LoginGovProvider.Nonce providers.NewLoginGovProvider

//@ func (*LoginGovProvider).Redeem
//@ prop C14 C05 C04
//@ ensures[no-code-no-session] code == "" ==> ret1 == ErrMissingCode && ret0 == nil
//@ ensures[token-endpoint-failure-gives-no-session] called(UnmarshalInto) && ret(UnmarshalInto) != nil ==> ret0 == nil && ret1 != nil
//@     && !called(checkNonce) && !called(emailFromUserInfo)
//@ ensures[a-failed-nonce-check-gives-no-session] called(checkNonce) && ret(checkNonce) != nil ==> ret0 == nil && ret1 != nil && !called(emailFromUserInfo)
//@ ensures[an-unverified-or-missing-address-gives-no-session] called(emailFromUserInfo) && ret1(emailFromUserInfo) != nil ==> ret0 == nil && ret1 != nil
//@ ensures[session-only-after-nonce-check-and-verified-address] ret0 != nil ==> ret1 == nil && called(checkNonce) && ret(checkNonce) == nil
//@     && arg(checkNonce, 1) == p && called(emailFromUserInfo) && ret1(emailFromUserInfo) == nil && ret0 == recv(CreatedAtNow)
//@ ensures[error-means-no-session] ret1 != nil ==> ret0 == nil
//@ at call CreatedAtNow assert[address-is-what-the-userinfo-endpoint-verified] recv(CreatedAtNow).Email == ret0(emailFromUserInfo)
//@ at call Add#5 assert[the-logins-pkce-verifier-goes-to-the-token-endpoint] arg(Add#5, 1) == "code_verifier" && arg(Add#5, 2) == codeVerifier
//@     && codeVerifier != ""
//@ ensures[a-verifier-is-always-sent-when-there-is-one] codeVerifier != "" && called(Do) ==> called(Add#5)
//@ at call Add#3 assert[the-callbacks-code-is-redeemed] arg(Add#3, 1) == "code" && arg(Add#3, 2) == code

// the ID token must parse under the provider's published key and carry this provider's nonce
//@ func checkNonce
//@ prop C05 C14
//@ ensures[unparsable-or-badly-signed-token-is-an-error] called(ParseWithClaims) && ret1(ParseWithClaims) != nil ==> result != nil
//@ ensures[accepted-only-with-the-providers-nonce] result == nil ==> ret1(ParseWithClaims) == nil && arg(ParseWithClaims, 0) == idToken
//@     && as(ret0(ParseWithClaims).Claims, "*loginGovCustomClaims").Nonce == p.Nonce

//@ func emailFromUserInfo
//@ safety
//@ prop C14 C04
//@ ensures[failed-lookup-gives-no-address] called(UnmarshalInto) && ret(UnmarshalInto) != nil ==> ret0 == "" && ret1 != nil
//@ ensures[an-address-or-an-error] ret1 == nil ==> ret0 != ""
//@ ensures[error-means-no-address] ret1 != nil ==> ret0 == ""

//@ func (*LoginGovProvider).GetLoginURL
//@ prop C05 C03
//@ at call makeLoginURL assert[the-callers-parameters-reach-the-url] arg(makeLoginURL, 3) == extraParams && arg(makeLoginURL, 1) == redirectURI
//@     && arg(makeLoginURL, 2) == state
//@ at call Add#1 assert[the-providers-nonce-is-sent] arg(Add#1, 1) == "nonce" && arg(Add#1, 2) == p.Nonce
//@ ensures[nonce-always-sent] called(Add#1)

// ------------------------------------------------------------------ C14 / C04 / C05: the OIDC code redemption and the mandatory address
//@ func (*OIDCProvider).Redeem
//@ prop C14 C04 C05
//@ ensures[failed-exchange-gives-no-session] called(Exchange) && ret1(Exchange) != nil ==> ret0 == nil && ret1 != nil && !called(createSession)
//@ ensures[session-only-from-the-exchanged-token-through-verification] ret0 != nil ==> called(createSession) && ret0 == ret0(createSession)
//@     && ret1(Exchange) == nil && arg(createSession, 2) == ret0(Exchange) && !arg(createSession, 3)
//@ ensures[error-means-no-session] ret1 != nil ==> ret0 == nil
//@ at call SetAuthURLParam assert[the-logins-pkce-verifier-goes-to-the-token-endpoint] arg(SetAuthURLParam, 0) == "code_verifier"
//@     && arg(SetAuthURLParam, 1) == codeVerifier && codeVerifier != ""
//@ ensures[a-verifier-is-always-sent-when-there-is-one] codeVerifier != "" && called(Exchange) ==> called(SetAuthURLParam)
//@ at call Exchange assert[the-callbacks-code-is-redeemed] arg(Exchange, 2) == code

//@ func (*OIDCProvider).EnrichSession
//@ safety
//@ nomod
//@ prop C14 C04
//@ ensures[a-session-without-an-address-is-refused] result == nil <==> s.Email != ""

// ------------------------------------------------------------------ C14 / C12: the legacy Azure provider's refresh and enrichment
//@ nonnil AzureProvider.ProviderData
//@ stable AzureProvider.ProviderData
//@ func (*AzureProvider).RefreshSession
//@ safety
//@ nilable s
//@ prop C14 C12
//@ ensures[no-refresh-token-no-refresh] s == nil ==> !ret0 && ret1 == nil && !called(redeemRefreshToken)
//@ ensures[refreshed-only-on-success] ret0 ==> ret1 == nil && called(redeemRefreshToken) && ret(redeemRefreshToken) == nil
//@     && arg(redeemRefreshToken, 2) == s
//@ ensures[refresh-failure-is-an-error] called(redeemRefreshToken) && ret(redeemRefreshToken) != nil ==> !ret0 && ret1 != nil
//@ ensures[error-not-refreshed] ret1 != nil ==> !ret0

//@ func (*AzureProvider).redeemRefreshToken
//@ prop C14 C12 C09
//@ requires[config:provider-urls-defaulted] p.RedeemURL != nil
//@ ensures[failure-assigns-nothing-to-the-session] result != nil ==> !stored("SessionState.AccessToken") && !stored("SessionState.IDToken")
//@     && !stored("SessionState.RefreshToken") && !called(CreatedAtNow) && !called(SetExpiresOn)
//@ ensures[token-endpoint-failure-is-an-error] called(UnmarshalInto) && ret(UnmarshalInto) != nil ==> result != nil
//@ at call Add#2 assert[this-sessions-refresh-token-is-redeemed] arg(Add#2, 1) == "refresh_token" && arg(Add#2, 2) == s.RefreshToken
//@ ensures[refreshed-session-is-restamped] result == nil ==> called(CreatedAtNow) && recv(CreatedAtNow) == s && called(SetExpiresOn) && recv(SetExpiresOn) == s
//@ at call extractClaimsIntoSession assert[claims-of-this-session-after-the-new-tokens-are-in] arg(extractClaimsIntoSession, 2) == s

//@ func (*AzureProvider).EnrichSession
//@ prop C14 C04
//@ ensures[a-failed-address-lookup-is-an-error] called(getEmailFromProfileAPI) && ret1(getEmailFromProfileAPI) != nil ==> result != nil
//@     && !stored("SessionState.Email")
//@ ensures[a-failed-group-lookup-is-an-error] called(getGroupsFromProfileAPI) && ret1(getGroupsFromProfileAPI) != nil ==> result != nil
//@     && !stored("SessionState.Groups")
//@ at call getEmailFromProfileAPI assert[looked-up-with-this-sessions-token-only-when-no-address-is-known] session.Email == ""
//@     && arg(getEmailFromProfileAPI, 2) == session.AccessToken
//@ at call extractClaimsIntoSession assert[claims-of-this-session] arg(extractClaimsIntoSession, 2) == session

// ------------------------------------------------------------------ C04 / C08 / C14: Keycloak-OIDC roles come from a verified access token only
//@ func (*KeycloakOIDCProvider).EnrichSession
//@ prop C14 C08 C04
//@ ensures[oidc-enrichment-and-role-extraction-must-both-succeed] result == nil ==> ret(EnrichSession) == nil && called(extractRoles)
//@     && ret(extractRoles) == nil && arg(extractRoles, 2) == s
//@ ensures[no-roles-for-a-session-the-oidc-provider-refused] called(EnrichSession) && ret(EnrichSession) != nil ==> result != nil && !called(extractRoles)

//@ func (*KeycloakOIDCProvider).extractRoles
//@ prop C14 C08 C04
//@ ensures[unverifiable-access-token-adds-no-roles] called(getAccessClaims) && ret1(getAccessClaims) != nil ==> result != nil
//@     && !stored("SessionState.Groups")
//@ at call getAccessClaims assert[claims-of-this-session] arg(getAccessClaims, 2) == s

//@ func (*KeycloakOIDCProvider).getAccessClaims
//@ prop C04 C14
//@ at call Verify assert[the-access-token-is-verified-by-the-configured-verifier] recv(Verify) == p.Verifier && arg(Verify, 1) == s.AccessToken
//@ ensures[claims-only-from-a-verified-token] ret1 == nil ==> called(Verify) && ret1(Verify) == nil && called(Claims) && ret(Claims) == nil
//@     && recv(Claims) == ret0(Verify)
//@ ensures[error-means-no-claims] ret1 != nil ==> ret0 == nil

// ------------------------------------------------------------------ C14 / C08: Entra ID enrichment: group overage is read from Graph with this session's token, failures add nothing
//@ func (*MicrosoftEntraIDProvider).EnrichSession
//@ prop C14 C08
//@ ensures[a-session-the-oidc-provider-refused-stays-refused] called(EnrichSession) && ret(EnrichSession) != nil ==> result != nil
//@     && !called(checkGroupOverage) && !called(addGraphGroupsToSession)
//@ ensures[an-unreadable-token-is-an-error] called(checkGroupOverage) && ret1(checkGroupOverage) != nil ==> result != nil && !called(addGraphGroupsToSession)
//@ at call addGraphGroupsToSession assert[graph-groups-only-on-overage-for-this-session] ret0(checkGroupOverage) && ret1(checkGroupOverage) == nil
//@     && arg(addGraphGroupsToSession, 2) == session && arg(checkGroupOverage, 1) == session

//@ func (*MicrosoftEntraIDProvider).addGraphGroupsToSession
//@ prop C14 C08
//@ loop 0 invariant[page-loop] true
//@ ensures[a-failed-graph-page-adds-no-groups] called(UnmarshalSimpleJSON) && ret1(UnmarshalSimpleJSON) != nil ==> !stored("SessionState.Groups")

// ------------------------------------------------------------------ C14 / C04: ADFS falls back to the upn claim of this session's own tokens
//@ func (*ADFSProvider).EnrichSession
//@ prop C14 C04
//@ ensures[upn-fallback-decides-when-oidc-enrichment-failed] called(oidcEnrichFunc) && ret(oidcEnrichFunc) != nil ==> called(fallbackUPN)
//@     && result == ret(fallbackUPN)
//@ at call fallbackUPN assert[fallback-on-this-session] arg(fallbackUPN, 2) == s
//@ at call oidcEnrichFunc assert[oidc-enrichment-of-this-session] arg(oidcEnrichFunc, 1) == s

//@ func (*ADFSProvider).fallbackUPN
//@ prop C14 C04
//@ ensures[unreadable-claims-are-an-error] (called(getClaimExtractor) && ret1(getClaimExtractor) != nil) || (called(GetClaim) && ret2(GetClaim) != nil)
//@     ==> result != nil && !stored("SessionState.Email")
//@ at call getClaimExtractor assert[claims-of-this-sessions-tokens] arg(getClaimExtractor, 1) == s.IDToken && arg(getClaimExtractor, 2) == s.AccessToken
//@ at call GetClaim assert[the-upn-claim] arg(GetClaim, 0) == adfsUPNClaim

// the provider's shared data is the object itself: never nil for a constructed provider
//@ iface Provider.Data
//@ prop C14 C19 C05
//@ pure
//@ ensures[nonnil:the-providers-own-data] result != nil

//@ func (*ProviderData).Data
//@ safety
//@ nomod
//@ prop C14 C19 C05
//@ ensures[the-object-itself] result == p
