#!/usr/bin/env python3
"""tools/auto_mutate.py [-n N] [-j K] [-seed S] [-only PKGDIR]

Mutation campaign over the functions under contract (development aid, not a registered check).
For N sampled single-token/statement mutations inside contracted functions: apply to a scratch worktree of /repo,
discard if it does not compile or if the package's (and the root package's) existing tests fail, otherwise run the quick
checks of the properties the function's contract names. A mutant that survives tests *and* checks is written to
/verif/automut/survivors.jsonl for triage (equivalent mutant, or a contract that is too weak).
Scratch worktrees live under $TMPDIR/automut and are removed at the end.
"""
import argparse, glob, json, os, random, re, subprocess, sys, threading, queue, time

ARGS = None
VERIF = os.path.dirname(os.path.dirname(os.path.abspath(__file__)))
REPO = '/repo'
ENV = dict(os.environ, GOFLAGS='-mod=mod', GOPROXY='off')
ENV.pop('GOSUMDB', None)
ENV.pop('GOTOOLCHAIN', None)


def contracts():
    out = {}  # pkgdir -> {func: set(props)}
    for f in glob.glob(VERIF + '/contracts/repo/**/zz_contracts_verif.go', recursive=True):
        pkgdir = os.path.relpath(os.path.dirname(f), VERIF + '/contracts/repo')
        cur = None
        for line in open(f):
            m = re.match(r'//@ func (.+)$', line.strip())
            if m:
                cur = m.group(1).strip()
                out.setdefault(pkgdir, {}).setdefault(cur, set())
                continue
            if re.match(r'//@ (iface|scan|lemma|define|stable|nonnil|axiom|abstract)\b', line.strip()):
                if line.strip().startswith('//@ iface'):
                    cur = None
                continue
            m = re.match(r'//@ prop (.+)$', line.strip())
            if m and cur:
                out[pkgdir][cur].update(m.group(1).split())
    return out


def sites(cons, only):
    res = []
    for pkgdir, funcs in cons.items():
        if only and pkgdir != only:
            continue
        names = sorted(funcs)
        for gf in sorted(glob.glob(os.path.join(REPO, pkgdir, '*.go'))):
            b = os.path.basename(gf)
            if b.endswith('_test.go') or b.startswith('zz_'):
                continue
            p = subprocess.run([VERIF + '/bin/gomut', gf] + names, capture_output=True, text=True)
            for l in p.stdout.splitlines():
                s = json.loads(l)
                s['pkgdir'] = pkgdir
                base = s['func']
                props = set()
                for fn, ps in funcs.items():
                    if fn == base or fn.startswith(base + '$'):
                        props |= ps
                s['props'] = sorted(props)
                s['rel'] = os.path.relpath(gf, REPO)
                res.append(s)
    return res


def run(cmd, cwd, timeout):
    try:
        p = subprocess.run(cmd, cwd=cwd, env=ENV, capture_output=True, text=True, timeout=timeout)
        return p.returncode, (p.stdout + p.stderr)
    except subprocess.TimeoutExpired:
        return 124, 'timeout'


def worker(k, q, out, lock, tmp):
    wt = os.path.join(tmp, 'w%d' % k)
    subprocess.run(['git', '-C', REPO, 'worktree', 'remove', '--force', wt], capture_output=True)
    subprocess.run(['git', '-C', REPO, 'worktree', 'add', '-q', '--detach', wt, 'HEAD'], check=True)
    try:
        while True:
            try:
                s = q.get_nowait()
            except queue.Empty:
                return
            path = os.path.join(wt, s['rel'])
            src = open(path, 'rb').read()
            mut = src[:s['start']] + s['repl'].encode() + src[s['end']:]
            open(path, 'wb').write(mut)
            rec = dict(s)
            t0 = time.time()
            pk = './' + s['pkgdir'] if s['pkgdir'] != '.' else '.'
            rc, o = run(['go', 'build', pk], wt, 300)
            if rc != 0:
                rec['outcome'] = 'does-not-compile'
            else:
                pkgs = [pk] if pk == '.' else [pk, '.']
                if ARGS.contracts_only:
                    rc, o = 0, ''
                else:
                    rc, o = run(['go', 'test', '-vet=off', '-count=1', '-timeout', '240s'] + pkgs, wt, 600)
                if rc != 0:
                    rec['outcome'] = 'killed-by-tests'
                else:
                    rec['outcome'] = 'survived'
                    for p in s['props'][:4]:
                        rc, o = run([VERIF + '/bin/gcv', 'check', '-repo', wt, '-no-evidence', p], VERIF, 900)
                        if rc == 1:
                            m = re.search(r'failed obligation: (\S+)', o)
                            rec['outcome'] = 'killed-by-contracts'
                            rec['killer'] = (p + ' ' + (m.group(1) if m else ''))[:200]
                            break
                        if rc != 0:
                            rec['outcome'] = 'engine-error'
                            rec['killer'] = o[-300:]
                            break
            rec['seconds'] = round(time.time() - t0, 1)
            open(path, 'wb').write(src)
            with lock:
                out.write(json.dumps(rec) + '\n')
                out.flush()
                if rec['outcome'] in ('survived', 'engine-error'):
                    open(VERIF + '/automut/survivors.jsonl', 'a').write(json.dumps(rec) + '\n')
                print('%-20s %s:%d %s [%s]' % (rec['outcome'], s['rel'], s['line'], s['desc'], rec.get('killer', '')[:90]), flush=True)
    finally:
        subprocess.run(['git', '-C', REPO, 'worktree', 'remove', '--force', wt], capture_output=True)


def main():
    ap = argparse.ArgumentParser()
    ap.add_argument('-n', type=int, default=100)
    ap.add_argument('-j', type=int, default=4)
    ap.add_argument('-seed', type=int, default=1)
    ap.add_argument('-only', default='')
    ap.add_argument('-contracts-only', dest='contracts_only', action='store_true', help='skip the test suite: measure what the contracts alone kill')
    a = ap.parse_args()
    global ARGS
    ARGS = a
    os.makedirs(VERIF + '/automut', exist_ok=True)
    ss = sites(contracts(), a.only)
    random.Random(a.seed).shuffle(ss)
    ss = ss[:a.n]
    print('%d mutation sites sampled' % len(ss), flush=True)
    q = queue.Queue()
    for s in ss:
        q.put(s)
    tmp = os.path.join(os.environ.get('TMPDIR', '/tmp'), 'automut')
    os.makedirs(tmp, exist_ok=True)
    lock = threading.Lock()
    out = open(VERIF + '/automut/results_seed%d%s.jsonl' % (a.seed, '_contracts_only' if a.contracts_only else ''), 'a')
    ts = [threading.Thread(target=worker, args=(k, q, out, lock, tmp)) for k in range(a.j)]
    for t in ts:
        t.start()
    for t in ts:
        t.join()
    subprocess.run(['git', '-C', REPO, 'worktree', 'prune'])


if __name__ == '__main__':
    main()
