#!/bin/sh
# Copies the contract files (mirror under /verif/contracts/repo) into /repo next to the code they specify.
# The files are comment-only and guarded by //go:build verif.
set -e
cd /verif/contracts/repo
find . -name 'zz_*_verif.go' | while read f; do
  mkdir -p "/repo/$(dirname "$f")"
  cmp -s "$f" "/repo/$f" || { cp "$f" "/repo/$f"; echo "synced $f"; }
done
