#!/usr/bin/env python3
"""Generates the hand-written part of the must-fail corpus: small property-breaking edits that still compile.
Each entry: (property, name, file, old, new). Patches are written to /verif/mutants/<prop>/<name>.patch."""
import subprocess, os, sys
M = [
 ("C02","mac-without-cookie-name","pkg/encryption/utils.go",'checkSignature(parts[2], seed, cookie.Name, parts[0], parts[1])','checkSignature(parts[2], seed, "", parts[0], parts[1])'),
 ("C02","checkhmac-true-on-decode-error","pkg/encryption/utils.go",'			return hmac.Equal(inputMAC, expectedMAC)\n		}\n	}\n	return false','			return hmac.Equal(inputMAC, expectedMAC)\n		}\n	}\n	return input == expected'),
 ("C03","checknonce-compares-raw-nonce","pkg/encryption/nonce.go",'return hmac.Equal([]byte(HashNonce(nonce)), []byte(hashed))','return hmac.Equal(nonce, []byte(hashed)) || hmac.Equal([]byte(HashNonce(nonce)), []byte(hashed))'),
 ("C03","callback-loads-csrf-cookie-by-fixed-name","oauthproxy.go",'cookieName := cookies.GenerateCookieName(p.CookieOptions, nonce)','cookieName := cookies.GenerateCookieName(p.CookieOptions, "")'),
 ("C05","pkce-verifier-too-short","oauthproxy.go",'encryption.GenerateCodeVerifierString(96)','encryption.GenerateCodeVerifierString(24)'),
 ("C05","s256-challenge-is-plain","pkg/encryption/utils.go",'		return base64.RawURLEncoding.EncodeToString(shaSum[:]), nil','		_ = shaSum\n		return codeVerifier, nil'),
 ("C05","session-saved-without-nonce-validation","oauthproxy.go",'	if !p.provider.ValidateSession(req.Context(), session) {','	if session.IDToken != "" && !p.provider.ValidateSession(req.Context(), session) {'),
 ("C06","redirect-regex-without-whitespace","pkg/app/redirect/validator.go",'`[/\\\\](?:[\\s\\v]*|\\.{1,2})[/\\\\]`','`[/\\\\](?:[ \\v]*|\\.{1,2})[/\\\\]`'),
 ("C06","double-slash-test-dropped","pkg/app/redirect/validator.go",'strings.HasPrefix(redirect, "/") && !strings.HasPrefix(redirect, "//") && !invalidRedirectRegex','strings.HasPrefix(redirect, "/") && !invalidRedirectRegex'),
 ("C06","callback-redirects-to-unvalidated-state","oauthproxy.go",'	if !p.redirectValidator.IsValidRedirect(appRedirect) {\n		appRedirect = "/"\n	}','	if appRedirect == "" {\n		appRedirect = "/"\n	}'),
 ("C07","inject-before-strip","pkg/middleware/headers.go",'return alice.New(strip, headerInjector).Then, nil','return alice.New(headerInjector, strip).Then, nil'),
 ("C07","preserve-flag-inverted","pkg/middleware/headers.go",'		if !header.PreserveRequestValue {','		if header.PreserveRequestValue {'),
 ("C07","empty-claim-filter-dropped","pkg/header/injector.go",'				if claim == "" {\n					continue\n				}\n				header.Add(name, claim)','				header.Add(name, claim)'),
 ("C08","callback-saves-without-email-validation","oauthproxy.go",'	if p.Validator(session.Email) && authorized {','	if authorized {'),
 ("C08","deny-path-does-not-clear-cookie","oauthproxy.go",'		err := p.ClearSessionCookie(rw, req)\n		if err != nil {\n			logger.Errorf("Error clearing session cookie: %v", err)\n		}\n		return nil, ErrAccessDenied','		return nil, ErrAccessDenied'),
 ("C08","auth-only-constraints-or-ed","oauthproxy.go",'	for _, constraint := range constraints {\n		if !constraint(req, s) {\n			return false\n		}\n	}\n\n	return true','	for _, constraint := range constraints {\n		if constraint(req, s) {\n			return true\n		}\n	}\n\n	return false'),
 ("C09","window-doubled","pkg/encryption/utils.go",'time.Now().Add(expiration*-1)','time.Now().Add(expiration*-2)'),
 ("C09","cookie-load-validates-against-refresh","pkg/sessions/cookie/session_store.go",'encryption.Validate(c, s.Cookie.Secret, s.Cookie.Expire)','encryption.Validate(c, s.Cookie.Secret, s.Cookie.Refresh)'),
 ("C09","refresh-does-not-restamp","pkg/middleware/stored_session.go",'	session.CreatedAtNow()\n','	_ = session\n'),
 ("C10","split-value-size-off-by-one","pkg/sessions/cookie/session_store.go",'valueSize := len(valueBytes) - overflow','valueSize := len(valueBytes) - overflow + 1'),
 ("C10","manager-save-always-new-ticket","pkg/sessions/persistence/manager.go",'	tckt, err := decodeTicketFromRequest(req, m.Options)\n	if err != nil {\n		tckt, err = newTicket(m.Options)','	tckt, err := decodeTicketFromRequest(req, m.Options)\n	if err != nil || tckt != nil {\n		tckt, err = newTicket(m.Options)'),
 ("C11","signout-redirects-despite-clear-error","oauthproxy.go",'		logger.Errorf("Error clearing session cookie: %v", err)\n		p.ErrorPage(rw, req, http.StatusInternalServerError, err.Error())\n		return\n	}\n\n	p.backendLogout(rw, req)','		logger.Errorf("Error clearing session cookie: %v", err)\n	}\n\n	p.backendLogout(rw, req)'),
 ("C11","manager-clear-swallows-store-error","pkg/sessions/persistence/manager.go",'	return tckt.clearSession(func(key string) error {\n		return m.Store.Clear(req.Context(), key)\n	})','	_ = tckt.clearSession(func(key string) error {\n		return m.Store.Clear(req.Context(), key)\n	})\n	return nil'),
 ("C12","no-validation-after-failed-refresh","pkg/middleware/stored_session.go",'		logger.Errorf("Unable to refresh session: %v", err)\n	}\n','		logger.Errorf("Unable to refresh session: %v", err)\n		return nil\n	}\n'),
 ("C13","cookie-set-before-store-write","pkg/sessions/persistence/manager.go",'	err = tckt.saveSession(s, func(key string, val []byte, exp time.Duration) error {\n		return m.Store.Save(req.Context(), key, val, exp)\n	})\n	if err != nil {\n		return err\n	}\n\n	return tckt.setCookie(rw, req, s)','	if err := tckt.setCookie(rw, req, s); err != nil {\n		return err\n	}\n	return tckt.saveSession(s, func(key string, val []byte, exp time.Duration) error {\n		return m.Store.Save(req.Context(), key, val, exp)\n	})'),
 ("C13","ready-despite-ping-error","pkg/middleware/readynesscheck.go",'			if err := verifiable.VerifyConnection(req.Context()); err != nil {\n				rw.WriteHeader(http.StatusInternalServerError)\n				fmt.Fprintf(rw, "error: %v", err)\n				return\n			}','			if err := verifiable.VerifyConnection(req.Context()); err != nil {\n				fmt.Fprintf(rw, "error: %v", err)\n			}'),
 ("C14","callback-continues-after-enrich-error","oauthproxy.go",'		logger.Errorf("Error creating session during OAuth2 callback: %v", err)\n		p.ErrorPage(rw, req, http.StatusInternalServerError, err.Error())\n		return\n	}','		logger.Errorf("Error creating session during OAuth2 callback: %v", err)\n	}'),
 ("C15","method-compared-case-insensitively","oauthproxy.go",'return route.method == "" || req.Method == route.method','return route.method == "" || strings.EqualFold(req.Method, route.method)'),
 ("C15","preflight-without-options-test","oauthproxy.go",'isPreflightRequestAllowed := p.skipAuthPreflight && req.Method == "OPTIONS"','isPreflightRequestAllowed := p.skipAuthPreflight && req.Header.Get("Access-Control-Request-Method") != ""'),
 ("C15","trusted-on-parser-error","oauthproxy.go",'		// Possibly spoofed X-Real-IP header\n		return false','		// Possibly spoofed X-Real-IP header\n		return p.trustedIPs != nil && req.RemoteAddr == "@"'),
 ("C16","proto-header-before-mode-test","pkg/requests/util/util.go",'	if !IsProxied(req) || proto == "" {\n		proto = req.URL.Scheme','	if proto == "" {\n		proto = req.URL.Scheme'),
 ("C16","new-direct-forwarded-header-read","pkg/middleware/redirect_to_https.go",'		proto := requestutil.GetRequestProto(req)\n','		proto := requestutil.GetRequestProto(req)\n		if p := req.Header.Get("X-Forwarded-Proto"); p != "" {\n			proto = p\n		}\n'),
 ("C17","comparator-shorter-first","pkg/upstream/proxy.go",'			// Default to longest Path wins\n			return len(in[i].Path) > len(in[j].Path)','			// Default to longest Path wins\n			return len(in[i].Path) < len(in[j].Path)'),
 ("C17","prefix-and-exact-swapped","pkg/upstream/proxy.go",'	if strings.HasSuffix(path, "/") {\n		m.serveMux.PathPrefix(path).Handler(handler)','	if !strings.HasSuffix(path, "/") {\n		m.serveMux.PathPrefix(path).Handler(handler)'),
 ("C17","raw-query-not-reset","pkg/upstream/http.go",'		req.URL.Opaque = req.RequestURI\n		req.URL.RawQuery = ""','		req.URL.Opaque = req.RequestURI'),
 ("C18","cookie-domain-last-match","pkg/cookies/cookies.go",'	for _, domain := range cookieDomains {\n		if strings.HasSuffix(host, domain) {\n			return domain\n		}\n	}\n	return ""','	match := ""\n	for _, domain := range cookieDomains {\n		if strings.HasSuffix(host, domain) {\n			match = domain\n		}\n	}\n	return match'),
 ("C18","copycookie-drops-samesite","pkg/sessions/cookie/session_store.go",'		SameSite:   c.SameSite,\n','		SameSite:   0,\n'),
 ("C18","csrf-cookie-from-literal","pkg/cookies/csrf.go",'	http.SetCookie(rw, MakeCookieFromOptions(\n		req,\n		c.cookieName(),\n		"",\n		c.cookieOpts,\n		time.Hour*-1,\n	))','	http.SetCookie(rw, &http.Cookie{Name: c.cookieName(), Path: c.cookieOpts.Path, MaxAge: -1, Expires: time.Unix(0, 0)})'),
 ("C19","decodestate-unchecked-index","oauthproxy.go",'	if len(parsedState) != 2 {\n		return "", "", errors.New("invalid length")\n	}','	if len(parsedState) < 1 {\n		return "", "", errors.New("invalid length")\n	}'),
 ("C20","published-htpasswd-map-mutated-in-place","pkg/authentication/basic/htpasswd.go",'	h.rwm.Lock()\n	h.users = updated.users\n	h.rwm.Unlock()','	for k, v := range updated.users {\n		h.users[k] = v\n	}'),
 ("C20","emails-map-published-before-complete","validator.go",'	updated := make(map[string]bool)\n	for _, r := range records {','	updated := make(map[string]bool)\n	atomic.StorePointer(&um.m, unsafe.Pointer(&updated)) // #nosec G103\n	for _, r := range records {'),
 ("C04","audience-check-bypassed-for-extra-claims","pkg/providers/oidc/verifier.go",'	if isValidAudience, err := v.verifyAudience(token, claims); !isValidAudience {\n		return nil, err\n	}','	if isValidAudience, err := v.verifyAudience(token, claims); !isValidAudience && len(v.verificationOptions.AudienceClaims) < 2 {\n		return nil, err\n	}'),
 ("C04","bearer-session-before-verify-error-check","providers/oidc.go",'	idToken, err := p.Verifier.Verify(ctx, token)\n	if err != nil {\n		return nil, err\n	}\n\n	ss, err := p.buildSessionFromClaims(token, "")','	idToken, verr := p.Verifier.Verify(ctx, token)\n\n	ss, err := p.buildSessionFromClaims(token, "")\n	if verr != nil && ss == nil {\n		return nil, verr\n	}'),
 ("C01","forward-on-needs-login-for-api-paths","oauthproxy.go",'		if p.forceJSONErrors || isAjax(req) || p.isAPIPath(req) {\n			logger.Printf("No valid authentication in request. Access Denied.")','		if p.isAPIPath(req) && req.Method == "OPTIONS" {\n			p.headersChain.Then(p.upstreamProxy).ServeHTTP(rw, req)\n			return\n		}\n		if p.forceJSONErrors || isAjax(req) || p.isAPIPath(req) {\n			logger.Printf("No valid authentication in request. Access Denied.")'),
 ("C01","stored-loader-keeps-session-on-refresh-error","pkg/middleware/stored_session.go",'	err = s.refreshSessionIfNeeded(rw, req, session)\n	if err != nil {\n		return nil, fmt.Errorf','	err = s.refreshSessionIfNeeded(rw, req, session)\n	if err != nil {\n		return session, fmt.Errorf'),
]
def main():
    wt='/tmp/gcv-mkmut'
    subprocess.run(['git','-C','/repo','worktree','remove','--force',wt],capture_output=True)
    subprocess.check_call(['git','-C','/repo','worktree','add','-q','--detach',wt,'HEAD'])
    env=dict(os.environ,GOFLAGS='-mod=mod',GOPROXY='off'); env.pop('GOSUMDB',None)
    ok=0
    for prop,name,f,old,new in M:
        p=os.path.join(wt,f)
        s=open(p).read()
        if old not in s:
            print('NOT FOUND',prop,name); continue
        open(p,'w').write(s.replace(old,new,1))
        r=subprocess.run(['go','build','./...'],cwd=wt,env=env,capture_output=True,text=True)
        if r.returncode!=0:
            print('DOES NOT COMPILE',prop,name,r.stderr[:300])
        else:
            os.makedirs(f'/verif/mutants/{prop}',exist_ok=True)
            d=subprocess.check_output(['git','-C',wt,'diff']).decode()
            open(f'/verif/mutants/{prop}/{name}.patch','w').write(d); ok+=1
        subprocess.check_call(['git','-C',wt,'checkout','-q','--','.'])
    subprocess.check_call(['git','-C','/repo','worktree','remove','--force',wt])
    print(ok,'mutant patches written')
main()
