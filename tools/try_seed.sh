#!/bin/bash
# tools/try_seed.sh <PROP> <dir with patch.diff, demo test, meta.json> : confirm a seeded change and run the property's check on it.
set -u
PROP=$1; SD=$2
WT=/tmp/seedcheck-$PROP
export GOFLAGS=-mod=mod GOPROXY=off
git -C /repo worktree remove --force $WT 2>/dev/null
git -C /repo worktree add -q --detach $WT HEAD || exit 2
cd $WT
PKGDIR=$(python3 -c "import json;print(json.load(open('$SD/meta.json'))['demo_pkg_dir'])")
DEMOCMD=$(python3 -c "import json;print(json.load(open('$SD/meta.json'))['demo_run_cmd'])")
DEMO=$(ls $SD/zz_demo_*_test.go* | head -1)
DEMOBASE=$(basename $DEMO .txt)
cp $DEMO $PKGDIR/$DEMOBASE
echo "== demo WITHOUT change (must pass)"; (eval "$DEMOCMD" 2>&1 | tail -3)
git apply $SD/patch.diff || { echo "PATCH DOES NOT APPLY"; exit 2; }
echo "== build"; go build ./... && echo build-ok
echo "== demo WITH change (must fail)"; (eval "$DEMOCMD" 2>&1 | tail -5)
rm -f $PKGDIR/$DEMOBASE
echo "== existing tests of touched packages"
PKGS=$(git diff --name-only | xargs -n1 dirname | sort -u | sed 's|^|./|')
go test -vet=off -count=1 $PKGS . 2>&1 | tail -8
echo "== gcv check $PROP on the changed tree"
/verif/bin/gcv check -repo $WT -no-evidence $PROP 2>&1 | grep -v "^  unsat" | tail -12
cd /; git -C /repo worktree remove --force $WT
