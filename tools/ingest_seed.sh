#!/bin/bash
# tools/ingest_seed.sh <PROP> <round-dir> <suffix> : copy a sub-agent's deliverables into /verif/seeded/<PROP><suffix> and confirm + check it.
set -u
P=$1; RD=$2; SUF=$3
D=/verif/seeded/$P$SUF
mkdir -p $D
cp $RD/$P/out/patch.diff $RD/$P/out/meta.json $D/ || exit 2
cp $RD/$P/out/zz_demo_*_test.go.txt $D/ || exit 2
mkdir -p $RD/results
/verif/tools/try_seed.sh $P $D > $RD/results/$P.log 2>&1
echo "== $P"; grep -A3 '== demo W' $RD/results/$P.log | grep -v '^--' | cut -c1-200; grep -E 'build-ok|^ok|FAIL|VIOLATION|quick:' $RD/results/$P.log | cut -c1-260 | tail -12
