#!/bin/bash
# Must-fail corpus: every patch under mutants/<PROP>/ and seeded/<PROP>[b..]/patch.diff is applied to a scratch worktree
# of /repo (under $TMPDIR, removed afterwards) and the property's check must report a VIOLATION (exit 1).
# Usage: tools/selftest.sh [PROP...]       exit 0 iff every change is detected.
cd "$(dirname "$0")/.." || exit 2
export GOFLAGS=-mod=mod GOPROXY=off GOTOOLCHAIN=auto; unset GOSUMDB
[ -x bin/gcv ] || (cd engine && go build -o ../bin/gcv ./cmd/gcv) || exit 2
PROPS="$@"; [ -z "$PROPS" ] && PROPS=$(ls mutants seeded 2>/dev/null | grep -o '^C[0-9][0-9]' | sort -u)
T=${TMPDIR:-/tmp}; missed=0; total=0
for p in $PROPS; do
  for patch in mutants/$p/*.patch seeded/$p/patch.diff seeded/${p}[a-z]/patch.diff; do
    [ -f "$patch" ] || continue
    total=$((total+1))
    WT=$T/gcv-selftest-$$-$total
    git -C /repo worktree add -q --detach "$WT" HEAD || exit 2
    if ! git -C "$WT" apply "$PWD/$patch" 2>/dev/null; then
      echo "SKIP     $p $patch (does not apply to the current tree)"; git -C /repo worktree remove --force "$WT"; continue
    fi
    out=$(bin/gcv check -repo "$WT" -no-evidence "$p" 2>&1); code=$?
    if [ $code -eq 1 ]; then
      ob=$(echo "$out" | grep -m1 "failed obligation" | sed 's/^ *failed obligation: //' | cut -c1-140)
      echo "DETECTED $p $patch :: $ob"
    else
      echo "MISSED   $p $patch (exit $code)"; missed=$((missed+1))
    fi
    git -C /repo worktree remove --force "$WT"
  done
done
find replays -name '*.json' -newer tools/selftest.sh -delete 2>/dev/null
echo "selftest: $total changes, $missed missed"
[ $missed -eq 0 ]
