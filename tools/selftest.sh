#!/bin/bash
# Must-fail corpus: every patch under mutants/<PROP>/ and seeded/<PROP>[a-z]/patch.diff is applied to a scratch worktree
# of /repo (under $TMPDIR, removed afterwards) and the property's check must report a VIOLATION (exit 1).
# Usage: tools/selftest.sh [PROP...]       exit 0 iff every change is detected.   SELFTEST_JOBS=N runs N changes at a time (default 4).
cd "$(dirname "$0")/.." || exit 2
export GOFLAGS=-mod=mod GOPROXY=off GOTOOLCHAIN=auto; unset GOSUMDB
[ -x bin/gcv ] || (cd engine && go build -o ../bin/gcv ./cmd/gcv) || exit 2
PROPS="$@"; [ -z "$PROPS" ] && PROPS=$(ls mutants seeded 2>/dev/null | grep -o '^C[0-9][0-9]' | sort -u)
T=${TMPDIR:-/tmp}; LIST=$(mktemp); OUT=$(mktemp)
n=0
for p in $PROPS; do
  for patch in mutants/$p/*.patch seeded/$p/patch.diff seeded/${p}[a-z]/patch.diff; do
    [ -f "$patch" ] || continue
    n=$((n+1)); echo "$p $patch $n" >> "$LIST"
  done
done
one() {
  p=$1; patch=$2; k=$3
  WT=$T/gcv-selftest-$$-$k
  git -C /repo worktree add -q --detach "$WT" HEAD || { echo "ERROR    $p $patch (worktree)"; return; }
  if ! git -C "$WT" apply "$PWD/$patch" 2>/dev/null; then
    echo "SKIP     $p $patch (does not apply to the current tree)"; git -C /repo worktree remove --force "$WT"; return
  fi
  out=$(bin/gcv check -repo "$WT" -no-evidence "$p" 2>&1); code=$?
  if [ $code -eq 1 ]; then
    ob=$(echo "$out" | grep -m1 "failed obligation" | sed 's/^ *failed obligation: //' | cut -c1-140)
    echo "DETECTED $p $patch :: $ob"
  else
    echo "MISSED   $p $patch (exit $code)"
  fi
  git -C /repo worktree remove --force "$WT"
}
export -f one; export T
xargs -P "${SELFTEST_JOBS:-4}" -L 1 bash -c 'one "$0" "$1" "$2"' < "$LIST" | tee "$OUT"
git -C /repo worktree prune
find replays -name '*.json' -newer tools/selftest.sh -delete 2>/dev/null
total=$(wc -l < "$LIST"); missed=$(grep -c '^MISSED\|^ERROR' "$OUT"); skipped=$(grep -c '^SKIP' "$OUT")
rm -f "$LIST" "$OUT"
echo "selftest: $total changes, $missed missed, $skipped skipped"
[ "$missed" -eq 0 ]
