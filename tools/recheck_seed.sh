#!/bin/bash
# tools/recheck_seed.sh <PROP> <seed dir> : apply a kept seeded change to a scratch worktree of /repo HEAD and run the property's check on it.
PROP=$1; SD=$2
WT=/tmp/seedre-$(basename $SD)
export GOFLAGS=-mod=mod GOPROXY=off
git -C /repo worktree remove --force $WT 2>/dev/null
git -C /repo worktree add -q --detach $WT HEAD || exit 2
(cd $WT && git apply $SD/patch.diff) || { echo "PATCH DOES NOT APPLY"; git -C /repo worktree remove --force $WT; exit 2; }
/verif/bin/gcv check -repo $WT -no-evidence $PROP 2>&1 | grep -E "VIOLATION|failed obligation|quick:|ENGINE" | cut -c1-260 | head -${3:-8}
git -C /repo worktree remove --force $WT
