#!/bin/bash
# tools/selftest_sample.sh [N] : a time-boxed sample of the must-fail corpus — per property the first hand mutant (or canary) and
# N (default 1) seeded changes chosen round-robin over the rounds — for use when the whole corpus (tools/selftest.sh) does not fit.
cd "$(dirname "$0")/.." || exit 2
export GOFLAGS=-mod=mod GOPROXY=off GOTOOLCHAIN=auto; unset GOSUMDB
N=${1:-1}; T=${TMPDIR:-/tmp}; LIST=$(mktemp)
k=0
for p in $(ls mutants seeded 2>/dev/null | grep -o '^C[0-9][0-9]' | sort -u); do
  m=$(ls mutants/$p/*.patch 2>/dev/null | head -1); [ -n "$m" ] && { k=$((k+1)); echo "$p $m $k" >> $LIST; }
  i=0
  for s in $(ls -d seeded/${p} seeded/${p}[a-z] 2>/dev/null | awk -v o=$((10#${p#C})) '{a[NR]=$0} END{for(j=0;j<NR;j++) print a[(j+o)%NR+1]}'); do
    [ -f $s/patch.diff ] || continue
    i=$((i+1)); [ $i -gt $N ] && break
    k=$((k+1)); echo "$p $s/patch.diff $k" >> $LIST
  done
done
one() {
  p=$1; patch=$2; k=$3
  WT=$T/gcv-sample-$$-$k
  git -C /repo worktree add -q --detach "$WT" HEAD || { echo "ERROR    $p $patch"; return; }
  if ! git -C "$WT" apply "$PWD/$patch" 2>/dev/null; then echo "SKIP     $p $patch"; git -C /repo worktree remove --force "$WT"; return; fi
  out=$(bin/gcv check -repo "$WT" -no-evidence "$p" 2>&1); code=$?
  if [ $code -eq 1 ]; then echo "DETECTED $p $patch :: $(echo "$out" | grep -m1 'failed obligation' | sed 's/^ *failed obligation: //' | cut -c1-120)"; else echo "MISSED   $p $patch (exit $code)"; fi
  git -C /repo worktree remove --force "$WT"
}
export -f one; export T
xargs -P "${SELFTEST_JOBS:-4}" -L 1 bash -c 'one "$0" "$1" "$2"' < "$LIST" | tee /tmp/selftest_sample.out
git -C /repo worktree prune; rm -f $LIST
echo "sample: $(grep -c . /tmp/selftest_sample.out) changes, $(grep -c '^MISSED\|^ERROR' /tmp/selftest_sample.out) missed, $(grep -c '^SKIP' /tmp/selftest_sample.out) skipped"
