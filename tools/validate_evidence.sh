#!/bin/sh
# Validates MANIFEST.json and every evidence file against the schemas in /root/.vp (needs the tooling venv's jsonschema).
python3-vt - <<'PY'
import json, jsonschema, glob, sys
ok = True
try:
    jsonschema.validate(json.load(open('/verif/MANIFEST.json')), json.load(open('/root/.vp/MANIFEST.schema.json')))
    print('MANIFEST ok')
except Exception as e:
    ok = False; print('MANIFEST INVALID', str(e)[:300])
sch = json.load(open('/root/.vp/EVIDENCE.schema.json'))
for f in sorted(glob.glob('/verif/evidence/C*.json')):
    try:
        d = json.load(open(f)); jsonschema.validate(d, sch)
        r = d.get('result') or d.get('outcome') or ''
        print(f.split('/')[-1], 'ok', str(r)[:60])
    except Exception as e:
        ok = False; print(f, 'INVALID', str(e)[:300])
sys.exit(0 if ok else 1)
PY
