#!/usr/bin/env python3
# tools/why_unreachable.py QUERY.smt2 : finds the first path condition (alive_*/reach_*/e_*) of a dumped query that is
# unsatisfiable and prints its definition chain (development aid for the vacuity guard).
import re, subprocess, sys
src = open(sys.argv[1]).read()
lines = src.split('\n')
# cut the final goal assert + check-sat
body = []
for l in lines:
    if l.startswith('(check-sat') or l.startswith('(get-model') or l.startswith('(get-value'):
        continue
    body.append(l)
# last assert is the goal
for i in range(len(body) - 1, -1, -1):
    if body[i].startswith('(assert'):
        del body[i]
        break
names = [(i, m.group(1)) for i, l in enumerate(body) for m in [re.match(r'\(define-fun ((?:\w+_)?(?:alive|reach|e)_\w+) \(\) Bool', l)] if m]
def sat(upto, name):
    q = '\n'.join(body[:upto + 1]) + '\n(assert %s)\n(check-sat)\n' % name
    open('/tmp/_wu.smt2', 'w').write(q)
    r = subprocess.run(['z3-new', '-T:10', '/tmp/_wu.smt2'], capture_output=True, text=True).stdout.split('\n')[0]
    return r
lo, hi = 0, len(names) - 1
first = None
for i, n in names:
    r = sat(len(body) - 1, n)
    if r == 'unsat':
        first = (i, n)
        break
if not first:
    print('every path condition is satisfiable (or undecided)')
    sys.exit(0)
print('first unreachable:', first[1])
print(body[first[0]][:600])
for k in range(max(0, first[0] - 12), first[0]):
    print('   ', body[k][:300])
