#!/bin/sh
# Runs every quick check (4 at a time) and prints one line per property.
cd /verif
for p in C01 C02 C03 C04 C05 C06 C07 C08 C09 C10 C11 C12 C13 C14 C15 C16 C17 C18 C19 C20; do echo $p; done | \
  xargs -P 4 -I{} sh -c './check {} > /tmp/quick_{}.log 2>&1; echo "{} exit=$? $(grep -c VIOLATION /tmp/quick_{}.log) violations; $(tail -1 /tmp/quick_{}.log | cut -c1-160)"' | sort
