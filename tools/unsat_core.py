#!/usr/bin/env python3
# tools/unsat_core.py QUERY.smt2 NAME : unsat core of "NAME holds" over the assertions of a dumped query (development aid)
import re, subprocess, sys
lines = open(sys.argv[1]).read().split('\n')
goal = sys.argv[2]
body = [l for l in lines if not (l.startswith('(check-sat') or l.startswith('(get-model') or l.startswith('(get-value'))]
for i in range(len(body) - 1, -1, -1):
    if body[i].startswith('(assert'):
        del body[i]
        break
out = ['(set-option :produce-unsat-cores true)']
names = {}
n = 0
for l in body:
    if l.startswith('(assert '):
        m = re.match(r'\(assert (.*)\)\s*(;.*)?$', l)
        out.append('(assert (! %s :named a%d))' % (m.group(1), n))
        names['a%d' % n] = l
        n += 1
    else:
        out.append(l)
out.append('(assert %s)\n(check-sat)\n(get-unsat-core)' % goal)
open('/tmp/_uc.smt2', 'w').write('\n'.join(out))
r = subprocess.run(['z3-new', '-T:30', '/tmp/_uc.smt2'], capture_output=True, text=True).stdout
print(r.split('\n')[0])
for c in re.findall(r'\ba\d+\b', r):
    print(c, names[c][:700])
